"""
C17 - delimited list / key=value / INI text decodes to what was encoded.

Lean: lean/N0Verif/Model/Esc.lean, Proofs/Esc.lean, Props/C17.lean, Drv/Esc.lean
B streams: esc.split (random + exhaustive small scope), esc.spec (the Python transcription of the
  specification against Lean's `splitSpec`), esc.dlist, esc.kv, esc.ddict, esc.ser, esc.unesc, esc.rt
C evaluators: split = one-pass specification, no-escape = plain split, totality, independence of
  neighbours, join round trip, key=value (first tag splits), flat mapping round trip, reserved characters protected, nested mappings serialise, default value,
  INI round trip (load_ini(save_file(m)) against a reference written from the statement)
"""
import itertools
import os
import tempfile

from harness import core
from harness.core import enc_str, enc_strs, enc_val

MANIFEST = dict(
    category="proof",
    technique="Lean 4 theorems over a hand-written model (fuelled while/for/else/pop loop, with a fuel-adequacy theorem) "
              "+ differential correspondence with the implementation + the statement executed on the implementation",
    text="Lean theorems, unbounded in text length, number of items and item contents, for the code with fix patches "
         "C17-a..d applied: C17_total (split_with_escape returns for every text, every non-empty delimiter, every maxsplit, "
         "escape character None or one character, trim on/off; the model's fuel is adequate: C17_fuel_adequate); "
         "C17_no_escape_is_split (escape character absent from the text => the result is str.split(delimiter, maxsplit), "
         "the empty delimiter's ValueError included); C17_odd_run_stays (when the delimiter does not end with the escape "
         "character the result equals the one-pass specification splitSpec: the delimiter after a piece stays inside the "
         "item exactly when that piece ends with an odd run of escapes, the trailing run of a closed item is halved when "
         "trimming; C17_general_spec gives the reference without that hypothesis); C17_independent (the items before and "
         "after a closed boundary are computed independently); C17_join_roundtrip / C17_join_roundtrip_drop_empty / "
         "C17_join_roundtrip_escape (deserialize_list(delimiter.join(items)) returns the items for non-empty item lists whose "
         "items contain no delimiter character, with parse_empty; without it the empty items are dropped); "
         "C17_dict_roundtrip (flat mapping with unique keys free of separator characters, ASCII string values over the "
         "whole reserved alphabet, separators non-empty, containing no backslash, 'x' or lower-case hex digit and sharing no character: "
         "unescape(deserialize_dict(serialize_dict(m))) == m); C17_nested_serialises (serialize_dict raises nothing on any "
         "tree of mappings/lists/scalars in which no list directly contains None); C17_default_value (an item without the "
         "equal tag yields (item, default_value)); C17_key_value (the first equal tag splits); C17_values_protected (the text "
         "written for a value contains no delimiter/equal-tag character, brace, bracket or quote). Counter-example theorems: C17_nonascii_cex, C17_list_none_cex, "
         "C17_maxsplit_escape_example. The INI part (parse_ini/load_ini/default_parse_value/split_pair) has no Lean model: "
         "it is checked only by running load_ini(save_file(m)) against a reference written from the statement.",
    note="unescape is modelled as UTF-8 encoding followed by CPython's unicode_escape decoder (validated by stream esc.unesc); "
         "upper()/lower() only for ASCII (otherwise unsupported). Open finding C17-e: text outside ASCII does not survive unescape.",
    design_ref="5/C17",
)

DELIMS = [";", ",", "|", "\t", "::", "=>"]
ODD_DELIMS = [";\\", "\\", "a;", "!"]
ESCS = [None, "", "\\", "\\", "\\", "!", "^"]
EQS = ["=", ":", "=>", "~"]
SAFE_DELIMS = [";", ",", "|", "\t", "&", "::", "\n"]
SAFE_EQS = ["=", ":", "=>", "~", "="]


def impl():
    from n0struct.n0struct_utils import (split_with_escape, deserialize_list, deserialize_key_value,  # noqa
                                         deserialize_dict, serialize_dict, unescape)

    return split_with_escape, deserialize_list, deserialize_key_value, deserialize_dict, serialize_dict, unescape


# ---------------------------------------------------------------------------
# the specification, transcribed from Lean's `splitSpec` (stream esc.spec ties the two)
# ---------------------------------------------------------------------------
def run_len(e, s):
    n = 0
    while n < len(s) and s[-1 - n] == e:
        n += 1
    return n


def halve(e, s):
    k = run_len(e, s) // 2
    return s[: len(s) - 2 * k] + e * k


def split_spec(e, d, tr, pieces):
    out, pre = [], ""
    for idx, p in enumerate(pieces):
        if idx < len(pieces) - 1 and run_len(e, p) % 2 == 1:
            pre = pre + p[:-1] + d
        else:
            out.append(pre + (halve(e, p) if tr else p))
            pre = ""
    return out


def okstrs(xs):
    return ("ok %d %s" % (len(xs), enc_strs(xs))).rstrip()


def opt(x):
    return "-" if x is None else enc_str(x)


def optc(e):
    return "-" if not e else enc_str(e)


def tf(b):
    return "T" if b else "F"


# ---------------------------------------------------------------------------
# generators
# ---------------------------------------------------------------------------
def gen_text(rng, d, e, n=None):
    ec = e or "\\"
    al = ["a", "b", d, d, ec, ec, ec, "\\", ";", "=", " ", "{", '"', "x"]
    if n is None:
        n = rng.choice([0, 1, 2, 3, 4, 5, 6, 8, 10, 14])
    return "".join(rng.choice(al) for _ in range(n))


def gen_split_case(rng):
    d = rng.choice(DELIMS + DELIMS + ODD_DELIMS)
    e = rng.choice(ESCS)
    return {"s": gen_text(rng, d, e), "d": d, "m": rng.choice([None, None, 0, 1, 2, 3]), "e": e, "tr": rng.random() < 0.6}


def gen_item(rng, d, e, clean_of=()):
    al = [c for c in ["a", "b", "x", " ", "=", "{", '"', "\\", "!", ";", ","] if all(c not in bad for bad in clean_of)]
    n = rng.choice([0, 0, 1, 2, 3, 5])
    return "".join(rng.choice(al) for _ in range(n))


RESERVED = ["{", "}", "[", "]", '"', "\\"]


def gen_value(rng, d, eq, nonascii=False):
    al = ["a", "b", "Z", "0", "9", "x", " ", "\\x3b", "\\"] + RESERVED + list(d) + list(eq) + ["\t", "\n", "'", "~"]
    if nonascii:
        al = al + ["é", "€", "ß"]
    n = rng.choice([0, 1, 2, 3, 4, 6, 9])
    return "".join(rng.choice(al) for _ in range(n))


def gen_key(rng, d, eq, clean=True):
    al = ["k", "K", "a", "1", "_", " ", "{", "\\", "x"]
    if not clean:
        al = al + list(d) + list(eq)
    al = [c for c in al if not clean or (c not in d and c not in eq)]
    n = rng.choice([0, 1, 1, 2, 3])
    return "".join(rng.choice(al) for _ in range(n))


def gen_flat(rng, d, eq, nonascii=False, clean=True):
    m = {}
    for _ in range(rng.choice([0, 1, 2, 3, 4])):
        m[gen_key(rng, d, eq, clean)] = gen_value(rng, d, eq, nonascii)
    return m


def gen_scalar(rng, d, eq, allow_none=True):
    k = rng.randrange(8)
    if k == 0 and allow_none:
        return None
    if k == 1:
        return rng.choice([0, 1, -12, 10**12])
    if k == 2:
        return rng.choice([True, False])
    if k == 3:
        return rng.choice([1.5, -0.25, 1e20])
    return gen_value(rng, d, eq)


def gen_tree(rng, d, eq, depth, none_in_lists):
    k = rng.randrange(10)
    if depth <= 0 or k < 4:
        return gen_scalar(rng, d, eq)
    if k < 8:
        return {gen_key(rng, d, eq, rng.random() < 0.8): gen_tree(rng, d, eq, depth - 1, none_in_lists) for _ in range(rng.choice([0, 1, 2, 3]))}
    out = []
    for _ in range(rng.choice([0, 1, 2, 3])):
        x = gen_tree(rng, d, eq, depth - 1, none_in_lists)
        if x is None and not none_in_lists:
            x = ""
        out.append(x)
    return out


def gen_nested_mapping(rng, d, eq, depth, none_in_lists=False):
    return {gen_key(rng, d, eq): gen_tree(rng, d, eq, depth, none_in_lists) for _ in range(rng.choice([1, 2, 3]))}


def non_ascii_case(c):
    """classifier of known finding C17-e: some text of the case is outside ASCII"""
    def na(x):
        if isinstance(x, str):
            return any(ord(ch) > 127 for ch in x)
        if isinstance(x, dict):
            return any(na(k) or na(v) for k, v in x.items())
        if isinstance(x, list):
            return any(na(v) for v in x)
        return False

    return na(c)


def non_ascii_value(c):
    """classifier of known finding C17-e: some *value* of the mapping is outside ASCII"""
    return isinstance(c.get("m"), dict) and non_ascii_case(list(c["m"].values()))


CLASSIFIERS = {"non_ascii_value": non_ascii_value}


# ---------------------------------------------------------------------------
# B: canonical answers of the implementation
# ---------------------------------------------------------------------------
def split_line(c):
    return "esc.split %s %s %d %s %s" % (enc_str(c["s"]), enc_str(c["d"]), c["m"] or 0, optc(c["e"]), tf(c["tr"]))


def split_impl(c):
    swe = impl()[0]
    r = core.call(swe, c["s"], c["d"], c["m"], c["e"], c["tr"])
    return okstrs(r[1]) if r[0] == "ok" else "err " + r[1]


def spec_line(c):
    return "esc.spec %s %s %d %s %s" % (enc_str(c["s"]), enc_str(c["d"]), c["m"] or 0, enc_str(c["e"]), tf(c["tr"]))


def spec_py(c):
    return okstrs(split_spec(c["e"], c["d"], c["tr"], c["s"].split(c["d"], c["m"] or -1)))


def dlist_line(c):
    return "esc.dlist %s %s %s %s" % (enc_str(c["s"]), enc_str(c["d"]), tf(c["pe"]), optc(c["e"]))


def dlist_impl(c):
    dl = impl()[1]
    r = core.call(dl, c["s"], c["d"], parse_empty=c["pe"], escape_character=c["e"])
    return okstrs(r[1]) if r[0] == "ok" else "err " + r[1]


def kv_line(c):
    return "esc.kv %s %s %s %s" % (enc_str(c["s"]), enc_str(c["eq"]), opt(c["dk"]), opt(c["dv"]))


def kv_impl(c):
    kv = impl()[2]
    r = core.call(kv, c["s"], equal_tag=c["eq"], default_key=c["dk"], default_value=c["dv"])
    if r[0] != "ok":
        return "err " + r[1]
    return "ok %s %s" % (enc_str(r[1][0]), opt(r[1][1]))


def pairs(dct, optional=True):
    out = ["%d" % len(dct)]
    for k, v in dct.items():
        out.append(enc_str(k))
        out.append(opt(v) if optional else enc_str(v))
    return "ok " + " ".join(out)


def ddict_line(c):
    return "esc.ddict %s %s %s %s %s %s" % (enc_str(c["s"]), enc_str(c["d"]), enc_str(c["eq"]), tf(c["pe"]), opt(c["dk"]), opt(c["dv"]))


def ddict_impl(c):
    dd = impl()[3]
    r = core.call(dd, c["s"], c["d"], parse_empty=c["pe"], equal_tag=c["eq"], default_key=c["dk"], default_value=c["dv"])
    return pairs(r[1]) if r[0] == "ok" else "err " + r[1]


def ser_line(c):
    return "esc.ser %s %s %s %s %d %d %s" % (enc_str(c["d"]), enc_str(c["eq"]), tf(c["ge"]), tf(c["gn"]), c["ck"], c["cv"], enc_val(c["v"]))


def ser_impl(c):
    sd = impl()[4]
    r = core.call(sd, c["v"], c["d"], c["eq"], c["ge"], c["gn"], c["ck"], c["cv"])
    if r[0] != "ok":
        return "err " + r[1]
    return "ok N" if r[1] is None else "ok S" + enc_str(r[1])


def unesc_line(c):
    return "esc.unesc %s" % enc_str(c["s"])


def unesc_impl(c):
    un = impl()[5]
    r = core.call(un, c["s"])
    if r[0] != "ok":
        return "err " + r[1]
    if any(0xD800 <= ord(ch) <= 0xDFFF for ch in r[1]):
        return "unsupported"
    return "ok " + enc_str(r[1])


def rt_line(c):
    return "esc.rt %s %s %s" % (enc_str(c["d"]), enc_str(c["eq"]), enc_val(c["m"]))


def rt_impl(c):
    _, _, _, dd, sd, un = impl()
    r = core.call(lambda: un(dd(sd(c["m"], c["d"], c["eq"]), c["d"], equal_tag=c["eq"])))
    if r[0] != "ok":
        return "err " + r[1]
    if any(any(0xD800 <= ord(ch) <= 0xDFFF for ch in v) for v in r[1].values()):
        return "unsupported"
    return pairs(r[1], optional=False)


# ---------------------------------------------------------------------------
# C: the statement on the implementation
# ---------------------------------------------------------------------------
def check_spec(c):
    """split_with_escape = splitSpec (delimiter non-empty, not ending with the escape character)"""
    swe = impl()[0]
    want = split_spec(c["e"], c["d"], c["tr"], c["s"].split(c["d"], c["m"] or -1))
    r = core.call(swe, c["s"], c["d"], c["m"], c["e"], c["tr"])
    if r[0] != "ok":
        return {"raised": r[1], "want": want}
    if r[1] != want:
        return {"got": r[1], "want": want}
    return None


def check_plain(c):
    """no escape character in the text (or none given): equals str.split, error included"""
    swe = impl()[0]
    want = core.call(lambda: c["s"].split(c["d"], c["m"] or -1))
    r = core.call(swe, c["s"], c["d"], c["m"], c["e"], c["tr"])
    if r != want:
        return {"got": list(r), "want": list(want)}
    return None


def check_independent(c):
    """closed boundary: split(left + d + right) = split(left) + split(right) when the last piece
    of `left` ends with an even run"""
    swe = impl()[0]
    e, d, tr = c["e"], c["d"], c["tr"]
    a = core.call(swe, c["left"], d, None, e, tr)
    b = core.call(swe, c["right"], d, None, e, tr)
    ab = core.call(swe, c["left"] + d + c["right"], d, None, e, tr)
    if a[0] != "ok" or b[0] != "ok" or ab[0] != "ok":
        return {"raised": [a, b, ab]}
    if ab[1] != a[1] + b[1]:
        return {"whole": ab[1], "left": a[1], "right": b[1]}
    return None


def check_join(c):
    dl = impl()[1]
    text = c["d"].join(c["items"])
    want = list(c["items"]) if c["pe"] else [i for i in c["items"] if i]
    r = core.call(dl, text, c["d"], parse_empty=c["pe"], escape_character=c["e"])
    if r[0] != "ok":
        return {"text": text, "raised": r[1], "want": want}
    if r[1] != want:
        return {"text": text, "got": r[1], "want": want}
    return None


def check_dict_roundtrip(c):
    _, _, _, dd, sd, un = impl()
    m, d, eq = c["m"], c["d"], c["eq"]
    r = core.call(lambda: un(dd(sd(m, d, eq), d, equal_tag=eq)))
    if r[0] != "ok":
        return {"raised": r[1], "text": core.call(sd, m, d, eq)[1]}
    if r[1] != m or list(r[1]) != list(m):
        return {"got": r[1], "want": m, "text": sd(m, d, eq)}
    return None


def check_protected(c):
    """reserved characters in values are protected: the value part of every entry contains no
    delimiter, equal tag, brace, bracket or quote, and a backslash only in front of `x`"""
    sd = impl()[4]
    d, eq = c["d"], c["eq"]
    for k, v in c["m"].items():
        r = core.call(sd, {k: v}, d, eq)
        if r[0] != "ok" or not isinstance(r[1], str) or not r[1].startswith(k + eq):
            return {"entry": [k, v], "got": list(r)}
        ev = r[1][len(k + eq):]
        bad = [ch for ch in ev if ch in '{}[]"' or ch in d or ch in eq]
        if bad or any(ch == "\\" and ev[i + 1:i + 2] != "x" for i, ch in enumerate(ev)):
            return {"entry": [k, v], "text": r[1], "unprotected": bad}
    return None


def check_nested(c):
    sd = impl()[4]
    r = core.call(sd, c["m"], c["d"], c["eq"], True, True, c.get("ck", 0), c.get("cv", 0))
    if r[0] != "ok":
        return {"raised": r[1]}
    if not isinstance(r[1], str):
        return {"got": repr(r[1])}
    return None


def check_default(c):
    """an item without the equal tag gets the default value (and, in a dict, so does its key)"""
    _, _, kv, dd, _, _ = impl()
    r = core.call(kv, c["item"], equal_tag=c["eq"], default_value=c["dv"])
    if r != ("ok", (c["item"], c["dv"])):
        return {"got": list(r), "want": [c["item"], c["dv"]]}
    text = c["d"].join([c["item"], "q" + c["eq"] + "1"])
    r = core.call(dd, text, c["d"], equal_tag=c["eq"], default_value=c["dv"])
    want = {c["item"]: c["dv"], "q": "1"} if c["item"] else {"q": "1"}
    if r != ("ok", want):
        return {"text": text, "got": list(r), "want": want}
    return None


def check_keyvalue(c):
    """the first equal tag splits: key free of equal-tag characters, any value"""
    kv = impl()[2]
    r = core.call(kv, c["k"] + c["eq"] + c["v"], equal_tag=c["eq"], default_value=c.get("dv"))
    if r != ("ok", (c["k"], c["v"])):
        return {"got": list(r), "want": [c["k"], c["v"]]}
    return None


# --- INI (no Lean model: reference written from the statement) --------------
def ini_typed(text):
    s = text.strip()
    body = s[1:].strip() if s[:1] in "+-" and s[:1] else s
    digits = body.replace(".", "0", 1) if body.count(".") == 1 else body
    if digits and digits.isnumeric():
        try:
            return round(float(s), 7) if "." in s else int(s)
        except ValueError:
            pass  # looks numeric, is not a number literal: stays text (fix C17-f)
    if len(s) >= 2 and s[0] == s[-1] and s[0] in "\"'":
        return s[1:-1]
    return s


def ini_reference(m, eq="="):
    out = {}
    for k, v in m.items():
        key = k.strip().upper()
        val = ini_typed(str(v))
        if key.endswith("+"):
            key = key[:-1]
            val = "%s%s" % (out[key], val) if key in out else "\x16%s" % (val,)
        out[key] = val
    return out


def check_ini(c):
    from n0struct import load_ini, save_file  # noqa

    m = c["m"]
    fd, path = tempfile.mkstemp(suffix=".ini", prefix="c17_")
    os.close(fd)
    try:
        r = core.call(save_file, path, dict(m), EOL=c["eol"])
        if r[0] != "ok":
            return {"save raised": r[1]}
        r = core.call(load_ini, path)
        if r[0] != "ok":
            return {"load raised": r[1]}
        want = ini_reference(m)
        got = r[1]
        if got != want or list(got) != list(want) or [type(v) for v in got.values()] != [type(v) for v in want.values()]:
            return {"got": repr(got), "want": repr(want)}
        return None
    finally:
        try:
            os.unlink(path)
        except OSError:
            pass


def gen_ini(rng):
    m = {}
    keys = ["a", "Key", "b_1", " k ", "Path", "n", "x.y", "a"]
    for _ in range(rng.choice([0, 1, 2, 3, 4, 5])):
        k = rng.choice(keys)
        if rng.random() < 0.25:
            k = k.rstrip() + "+"
        t = rng.randrange(9)
        if t == 0:
            v = rng.choice([0, 7, -3, 10**10])
        elif t == 1:
            v = rng.choice([1.5, -0.25, 3.14159265358979, 2.0])
        elif t == 2:
            v = rng.choice(["12", " 12 ", "+5", "-7", "1.50", "1.2.3", ".5", "5.", "-", "1e3", ".", "- 5", "+ 7", "-.", "\u00b2", "\u0663"])
        elif t == 3:
            v = rng.choice(['"quoted"', "'single'", '" sp "', '"', "'a\"", '""'])
        elif t == 4:
            v = rng.choice(["", " ", "a=b", "# not a comment", "// x", "a b", "v+"])
        else:
            v = "".join(rng.choice("abc XYZ_=/") for _ in range(rng.choice([1, 2, 4, 7])))
        m[k] = v
    return m


def ini_in_statement(m):
    """lines the statement speaks about: a key is a non-empty name that does not start a comment"""
    for k, v in m.items():
        ks = k.strip()
        if not ks or ks.startswith("#") or ks.startswith("//") or "=" in k or "\n" in k or "\r" in k:
            return False
        if isinstance(v, str) and ("\n" in v or "\r" in v):
            return False
    return True


# ---------------------------------------------------------------------------
EVALS = {
    "spec": check_spec, "plain": check_plain, "total": None, "independent": check_independent, "join": check_join,
    "dict_roundtrip": check_dict_roundtrip, "nested": check_nested, "default": check_default, "ini": check_ini,
    "keyvalue": check_keyvalue, "protected": check_protected,
}


def check_total(c):
    swe = impl()[0]
    r = core.call(swe, c["s"], c["d"], c["m"], c["e"], c["tr"])
    if r[0] != "ok":
        return {"raised": r[1]}
    return None


EVALS["total"] = check_total


def _base(ev):
    return ev.split("/")[0]


def shrink_failure(evaluator, case):
    fn = EVALS.get(_base(evaluator))
    if fn is None:
        return case
    valid = VALID.get(_base(evaluator), lambda c: True)

    def still(c):
        return valid(c) and fn(c) is not None

    return core.shrink(case, still)


def _spec_valid(c):
    return isinstance(c.get("s"), str) and c.get("d") and c.get("e") and len(c["e"]) == 1 and not c["d"].endswith(c["e"]) and isinstance(c.get("tr"), bool)


def _dict_valid(c):
    m, d, eq = c.get("m"), c.get("d"), c.get("eq")
    if not (isinstance(m, dict) and d and eq):
        return False
    if not safe_seps(d, eq):
        return False
    return all(isinstance(v, str) and all(ch not in d and ch not in eq for ch in k) for k, v in m.items())


def safe_seps(d, eq):
    bad = set("\\x0123456789abcdef")  # as hypothesis SafeSep of C17_dict_roundtrip
    return bool(d) and bool(eq) and not (set(d) & bad) and not (set(eq) & bad) and not (set(d) & set(eq))


VALID = {
    "spec": _spec_valid,
    "plain": lambda c: isinstance(c.get("s"), str) and isinstance(c.get("d"), str) and (not c.get("e") or (len(c["e"]) == 1 and c["e"] not in c["s"])),
    "total": lambda c: isinstance(c.get("s"), str) and c.get("d") and (not c.get("e") or len(c["e"]) == 1),
    "independent": lambda c: c.get("d") and c.get("e") and len(c["e"]) == 1 and not c["d"].endswith(c["e"]) and run_len(c["e"], c["left"].split(c["d"])[-1]) % 2 == 0,
    "join": lambda c: c.get("d") and c.get("items") and all(all(ch not in c["d"] for ch in it) and (not c.get("e") or c["e"] not in it) for it in c["items"]) and (not c.get("e") or (len(c["e"]) == 1 and c["e"] not in c["d"])),
    "dict_roundtrip": _dict_valid,
    "nested": lambda c: isinstance(c.get("m"), dict) and bool(c.get("d")) and bool(c.get("eq")) and no_none_in_lists(c["m"]),
    "default": lambda c: c.get("eq") and c.get("d") and c["eq"] not in c["item"] and all(ch not in c["item"] for ch in c["d"]) and not (set(c["d"]) & set("q1" + c["eq"])),
    "ini": lambda c: isinstance(c.get("m"), dict) and c.get("eol") in ("\n", "\r\n") and ini_in_statement(c["m"]),
    "protected": lambda c: _dict_valid(c),
    "keyvalue": lambda c: c.get("eq") and isinstance(c.get("k"), str) and isinstance(c.get("v"), str) and all(ch not in c["eq"] for ch in c["k"]),
}


def no_none_in_lists(v):
    if isinstance(v, dict):
        return all(no_none_in_lists(x) for x in v.values())
    if isinstance(v, list):
        return all(x is not None and no_none_in_lists(x) for x in v)
    return True


def replay(rp):
    c = rp["case"]
    if "evaluator" in rp:
        fn = EVALS[_base(rp["evaluator"])]
        bad = fn(c)
        print("evaluator:", rp["evaluator"])
        print("case:", c)
        print("result:", "property holds" if bad is None else bad)
        return 1 if bad else 0
    stream = rp.get("correspondence_stream", "")
    print("correspondence replay:", stream, c)
    mo = core.run_driver([rp["line"]])[0]
    fn = IMPLS.get(stream.split("/")[0])
    io_ = fn(c) if fn else None
    print("model:", mo, "impl:", io_)
    return 1 if mo != io_ else 0


IMPLS = {"esc.split": split_impl, "esc.spec": spec_py, "esc.dlist": dlist_impl, "esc.kv": kv_impl, "esc.ddict": ddict_impl,
         "esc.ser": ser_impl, "esc.unesc": unesc_impl, "esc.rt": rt_impl}


def witness_fails(finding):
    w = finding["witness"]
    fn = EVALS[w["evaluator"]]
    return fn(w["case"]) is not None


# ---------------------------------------------------------------------------
def run(ctx):
    n = ctx.budget(3000, 60000)
    known_e = lambda c, bad=None: "C17-e" if non_ascii_value(c) else None  # noqa

    # ---- B1: split_with_escape, random
    rng = ctx.rng("split")
    scases = [gen_split_case(rng) for _ in range(n)]
    nt_split = lambda c: bool(c["e"]) and c["e"] in c["s"] and c["d"] in c["s"]  # noqa
    ctx.correspond("esc.split", scases, split_line, split_impl, nontrivial=nt_split)
    # empty delimiter, maxsplit with escapes
    edge = [{"s": s, "d": d, "m": m, "e": e, "tr": tr} for s in ["", "a", "\\", "a\\;b;c;d", ";\\\\", "\\;"] for d in ["", ";"]
            for m in [None, 0, 1, 2] for e in [None, "", "\\"] for tr in [True, False]]
    ctx.correspond("esc.split/edge", edge, split_line, split_impl)
    # ---- B1x: exhaustive small scope
    maxlen = 6 if ctx.tier == "quick" else 8
    ex = []
    for k in range(maxlen + 1):
        for tup in itertools.product("a;\\", repeat=k):
            s = "".join(tup)
            for tr in (True, False):
                ex.append({"s": s, "d": ";", "m": None, "e": "\\", "tr": tr})
            if k <= maxlen - 2:
                for m in (1, 2):
                    ex.append({"s": s, "d": ";", "m": m, "e": "\\", "tr": True})
    if ctx.tier == "thorough":
        for k in range(7):
            for tup in itertools.product("a:!=", repeat=k):
                s = "".join(tup)
                ex.append({"s": s, "d": "::", "m": None, "e": "!", "tr": True})
                ex.append({"s": s, "d": ":", "m": 2, "e": "!", "tr": False})
    ctx.correspond("esc.split/exhaustive", ex, split_line, split_impl, nontrivial=nt_split)
    ctx.extra["exhaustive_subspace"] = ("all texts of length <= %d over {a ; \\} x trim on/off (maxsplit None; 1 and 2 up to length %d)"
                                        % (maxlen, maxlen - 2)) + ("; all texts <= 6 over {a : ! =} with delimiters '::' and ':'" if ctx.tier == "thorough" else "")
    # ---- B2: the Python transcription of the specification = Lean's splitSpec
    spcases = [c for c in scases + ex if c["e"] and c["d"]]
    ctx.correspond("esc.spec", spcases, spec_line, spec_py, nontrivial=nt_split)
    # ---- C: split = spec, plain, total
    ctx.evaluate("spec", [c for c in spcases if _spec_valid(c)], check_spec, nontrivial=nt_split)
    plain = []
    rng = ctx.rng("plain")
    for _ in range(n // 2):
        c = gen_split_case(rng)
        if rng.random() < 0.15:
            c["d"] = ""
        if c["e"]:
            c["s"] = c["s"].replace(c["e"], rng.choice(["", "q"]))
        plain.append(c)
    ctx.evaluate("plain", plain, check_plain, nontrivial=lambda c: c["d"] != "" and c["d"] in c["s"])
    ctx.evaluate("total", [c for c in scases + ex if c["d"]], check_total, nontrivial=nt_split)
    # ---- C: independence of neighbours
    rng = ctx.rng("independent")
    ind = []
    while len(ind) < n // 3:
        d = rng.choice(DELIMS)
        e = rng.choice(["\\", "\\", "!", "^"])
        c = {"left": gen_text(rng, d, e), "right": gen_text(rng, d, e), "d": d, "e": e, "tr": rng.random() < 0.5}
        if VALID["independent"](c):
            ind.append(c)
    ctx.evaluate("independent", ind, check_independent, nontrivial=lambda c: c["e"] in c["left"] + c["right"])
    # ---- B3 + C: deserialize_list / join round trip
    rng = ctx.rng("dlist")
    dl = []
    for _ in range(n // 2):
        c = gen_split_case(rng)
        dl.append({"s": c["s"], "d": c["d"], "pe": rng.random() < 0.5, "e": c["e"]})
    ctx.correspond("esc.dlist", dl, dlist_line, dlist_impl)
    jn = []
    for _ in range(n // 2):
        d = rng.choice(DELIMS)
        e = rng.choice([None, None, "", "\\", "!"])
        items = [gen_item(rng, d, e, clean_of=[d] + ([e] if e else [])) for _ in range(rng.choice([1, 1, 2, 3, 4, 6]))]
        jn.append({"items": items, "d": d, "pe": rng.random() < 0.6, "e": e})
    ctx.evaluate("join", jn, check_join, nontrivial=lambda c: len(c["items"]) > 1)
    # ---- B4: key=value and dict deserialisers
    rng = ctx.rng("kv")
    kvs, dds = [], []
    for _ in range(n // 2):
        eq = rng.choice(EQS + [""] if rng.random() < 0.1 else EQS)
        d = rng.choice(DELIMS)
        s = "".join(rng.choice(["a", "k", eq or "=", eq or "=", " ", "v", "\\", d]) for _ in range(rng.choice([0, 1, 2, 3, 5, 8])))
        dk = rng.choice([None, None, None, "", "DK"])
        dv = rng.choice([None, None, "", "DV"])
        kvs.append({"s": s, "eq": eq, "dk": dk, "dv": dv})
        items = []
        for _ in range(rng.choice([0, 1, 2, 3, 4])):
            items.append("".join(rng.choice(["a", "b", "k", eq or "=", eq or "=", " "]) for _ in range(rng.choice([0, 1, 2, 3, 5]))))
        dds.append({"s": d.join(items), "d": d if rng.random() < 0.95 else "", "eq": eq, "pe": rng.random() < 0.4, "dk": dk, "dv": dv})
    ctx.correspond("esc.kv", kvs, kv_line, kv_impl)
    ctx.correspond("esc.ddict", dds, ddict_line, ddict_impl)
    dfl = []
    for _ in range(n // 4):
        eq = rng.choice(["=", ":", "=>"])
        d = rng.choice([";", ",", "|"])
        item = "".join(rng.choice(["a", "k", " ", "\\", "x"]) for _ in range(rng.choice([0, 1, 2, 4])))
        dfl.append({"item": item, "eq": eq, "d": d, "dv": rng.choice([None, "", "DV", "0"])})
    ctx.evaluate("default", dfl, check_default)
    kvc = []
    for _ in range(n // 4):
        eq = rng.choice(EQS)
        k = "".join(rng.choice(["a", "k", " ", "\\", "x", ";"]) for _ in range(rng.choice([0, 1, 2, 4])))
        v = "".join(rng.choice(["a", "v", " ", eq, eq, ";", "\\"]) for _ in range(rng.choice([0, 1, 2, 4, 7])))
        if all(ch not in eq for ch in k):
            kvc.append({"k": k, "eq": eq, "v": v, "dv": rng.choice([None, "DV"])})
    ctx.evaluate("keyvalue", kvc, check_keyvalue, nontrivial=lambda c: c["eq"] in c["v"])
    # ---- B5: serialize_dict
    rng = ctx.rng("ser")
    sers = []
    for _ in range(n // 2):
        d, eq = rng.choice(SAFE_DELIMS + ["a", "5", "\\", "€"]), rng.choice(SAFE_EQS + ["x", "é"])
        k = rng.randrange(4)
        if k == 0:
            v = gen_flat(rng, d, eq, nonascii=rng.random() < 0.2, clean=rng.random() < 0.7)
        elif k == 1:
            v = gen_scalar(rng, d, eq)
        else:
            v = gen_tree(rng, d, eq, 3, none_in_lists=True)
        ck, cv = rng.choice([(0, 0), (0, 0), (0, 0), (1, 0), (-1, 1), (0, -1), (1, 1)])
        if non_ascii_case([v, d, eq]) and rng.random() < 0.8:
            ck, cv = 0, 0  # case conversion outside ASCII is outside the model: keep `unsupported` rare
        sers.append({"v": v, "d": d, "eq": eq, "ge": rng.random() < 0.8, "gn": rng.random() < 0.8, "ck": ck, "cv": cv})
    ctx.correspond("esc.ser", sers, ser_line, ser_impl, nontrivial=lambda c: isinstance(c["v"], (dict, list)))
    # ---- B6: unescape
    rng = ctx.rng("unesc")
    un = []
    al = ["\\", "\\", "\\", "x", "u", "U", "N", "0", "1", "7", "8", "9", "a", "b", "f", "F", "n", "t", "q", "{", "}", "\n", "'", '"', " ", "é", "€", "3", "5", "c", "d"]
    for _ in range(n):
        un.append({"s": "".join(rng.choice(al) for _ in range(rng.choice([0, 1, 2, 3, 4, 6, 8, 12])))})
    for s in ["\\x9", "\\x09", "\\x3b", "\\u20ac", "\\U0001f600", "\\U00110000", "\\ud800", "\\", "\\\n", "\\777", "\\18", "\\N{DASH}", "é", "€", "\U0001f600"]:
        un.append({"s": s})
    ctx.correspond("esc.unesc", un, unesc_line, unesc_impl, nontrivial=lambda c: "\\" in c["s"])
    # ---- B7 + C: flat mapping round trip
    rng = ctx.rng("rt")
    rts = []
    for _ in range(n):
        d, eq = rng.choice(SAFE_DELIMS), rng.choice(SAFE_EQS)
        if rng.random() < 0.1:
            d = rng.choice(["a", "5", "x", "\\", "€", "="])
        rts.append({"m": gen_flat(rng, d, eq, nonascii=rng.random() < 0.1, clean=rng.random() < 0.85), "d": d, "eq": eq})
    ctx.correspond("esc.rt", rts, rt_line, rt_impl, nontrivial=lambda c: len(c["m"]) > 0)
    dr = [c for c in rts if _dict_valid(c)]
    for d in SAFE_DELIMS + ["A", "\u20ac", "F;"]:  # the whole reserved alphabet, one character at a time, every safe separator pair
        for eq in SAFE_EQS:
            if safe_seps(d, eq):
                for ch in RESERVED + list(d) + list(eq) + ["\t", "\n", "\r", "\x00", "\x7f", "a", "'"]:
                    dr.append({"m": {"k": ch, "j": "a" + ch + ch + "b"}, "d": d, "eq": eq})
    ctx.evaluate("dict_roundtrip", dr, check_dict_roundtrip, in_known=known_e, nontrivial=lambda c: len(c["m"]) > 0)
    ctx.evaluate("protected", [c for c in dr if not non_ascii_value(c)], check_protected, nontrivial=lambda c: len(c["m"]) > 0)
    # ---- C: nested mappings serialise
    rng = ctx.rng("nested")
    ns = []
    for _ in range(n // 2):
        d, eq = rng.choice(SAFE_DELIMS), rng.choice(SAFE_EQS)
        ck, cv = rng.choice([(0, 0), (0, 0), (1, 0), (-1, -1), (True, False)])
        ns.append({"m": gen_nested_mapping(rng, d, eq, 3), "d": d, "eq": eq, "ck": ck, "cv": cv})
    ns.append({"m": {"k": "", "j": {"a": 1}}, "d": ";", "eq": "="})
    ctx.evaluate("nested", ns, check_nested, nontrivial=lambda c: any(isinstance(v, (dict, list)) for v in c["m"].values()))
    # ---- C: INI round trip (no Lean model)
    rng = ctx.rng("ini")
    inis = []
    while len(inis) < n // 3:
        m = gen_ini(rng)
        if ini_in_statement(m):
            inis.append({"m": m, "eol": rng.choice(["\n", "\r\n"])})
    ctx.evaluate("ini", inis, check_ini, nontrivial=lambda c: len(c["m"]) > 0)
    ctx.extra["assumptions"] = [
        "the model follows the code with fix patches C17-a, C17-b, C17-c, C17-d applied (C17-f concerns parse_ini, which has no model)",
        "escape character: None/'' or a single character (a longer escape_character is outside the model)",
        "unescape = UTF-8 encoding followed by CPython 3.12's unicode_escape decoder, hand-modelled (\\N{...} and lone surrogates: unsupported); validated by stream esc.unesc",
        "str.split(sep, maxsplit) is hand-modelled (splitAux) and validated by the esc.split streams with escape None",
        "str.upper()/lower() modelled for ASCII only (unsupported otherwise); str() of int/bool/float as in Val",
        "dict insertion order (dict(pairs)) is modelled by an association list",
        "INI: no Lean model; load_ini(save_file(m)) is compared with a reference written from the statement (evaluator `ini`)",
    ]
    ctx.extra["trusted_base"] = ["Python transcription of splitSpec in harness/props/c17.py (tied to Lean's splitSpec by stream esc.spec)"]
