"""
C17 - delimited list / key=value / INI text decodes to what was encoded.

Lean: lean/N0Verif/Model/Esc.lean, Proofs/Esc.lean, Drv/Esc.lean; Model/Ini.lean, Proofs/Ini.lean, Drv/Ini.lean; Props/C17.lean
B streams: esc.split (random + exhaustive small scope), esc.spec (the Python transcription of the
  specification against Lean's `splitSpec`), esc.dlist, esc.dlol (deserialize_list_of_lists), esc.dfix (deserialize_fixed_list), esc.kv, esc.ddict, esc.gvt (get_value_by_tag), esc.ddu (deserialize_dict then unescape),
  esc.ser, esc.unesc, esc.rt, esc.rtf (round trip under generate_empty / generate_none with a default value);
  ini.value (default_parse_value), ini.isnum (isnumber, every boundary of str.isnumeric), ini.parse (parse_ini on lines
  with comments, blanks, quotes, numbers, '+=' keys), ini.rt (load_ini(save_file(m)) through a real file), ini.read (load_lines)
C evaluators: split = one-pass specification, no-escape = plain split, totality, independence of
  neighbours, join round trip, join_lol (list-of-lists join round trip, parse_empty on/off), fixed_list, value_by_tag, key=value (first tag splits), flat mapping round trip (also under generate_empty / generate_none off and on with default values None, '', numbers, bools: dict_roundtrip/flags, /empty-default),
  default value (then unescape), reserved characters protected, nested mappings serialise, default value,
  INI round trip (load_ini(save_file(m)) against a reference written from the statement), ini_lines (parse_ini against the
  reference), ini_concat ('K=a','K+=b' / unseen key / blank before '+='), ini_comments (comment and blank lines change nothing)
"""
import itertools
import os
import tempfile

from harness import core
from harness.core import enc_str, enc_strs, enc_val
from harness import translate_py_esc as tresc

MANIFEST = dict(
    category="proof",
    technique="Lean 4 theorems over a hand-written model (fuelled while/for/else/pop loop, with a fuel-adequacy theorem) "
              "+ Python-subset-to-Lean translator of split_with_escape (whole function) and of the escaping loop of serialize_dict, "
              "regenerated from the source on every run, with machine-checked equality to the model "
              "+ differential correspondence with the implementation + the statement executed on the implementation",
    text="Lean theorems, unbounded in text length, number of items and item contents, for the code with fix patches "
         "C17-a..j applied: C17_total (split_with_escape returns for every text, every non-empty delimiter, every maxsplit, "
         "escape character None or one character, trim on/off; the model's fuel is adequate: C17_fuel_adequate); "
         "C17_no_escape_is_split (escape character absent from the text => the result is str.split(delimiter, maxsplit), "
         "the empty delimiter's ValueError included); C17_odd_run_stays (when the delimiter does not end with the escape "
         "character the result equals the one-pass specification splitSpec: the delimiter after a piece stays inside the "
         "item exactly when that piece ends with an odd run of escapes, the trailing run of a closed item is halved when "
         "trimming; C17_general_spec gives the reference without that hypothesis); C17_independent (the items before and "
         "after a closed boundary are computed independently); C17_join_roundtrip / C17_join_roundtrip_drop_empty "
         "(deserialize_list(delimiter.join(items)) returns the items for non-empty item lists whose "
         "items contain no delimiter character, with parse_empty; without it the empty items are dropped); "
         "C17_list_of_lists_roundtrip (fix C17-i; inner items joined with the inner delimiter, the lists with the outer one, no item contains a character of either delimiter, the inner "
         "delimiter none of the outer one, at least one list, every list at least one item: deserialize_list_of_lists with parse_empty=True returns the lists - empty items and the list [''] "
         "included -, with the default parse_empty=False the list [''] is dropped - C17_sublist_text_empty_iff: the only list whose text is empty - and every other list loses its empty items); "
         "C17_fixed_list (deserialize_fixed_list of joined items with parse_empty=True is the items padded with the default item / cut to n, length n); C17_list_of_lists_witness, C17_value_by_tag_examples "
         "(get_value_by_tag: examples only; general behaviour differential, stream esc.gvt + evaluator value_by_tag); "
         "C17_dict_roundtrip (flat mapping with unique keys free of separator characters, string values over every character - "
         "inside and outside ASCII since fix C17-e - and the whole reserved alphabet; separators non-empty, containing no "
         "backslash, 'x' or lower-case hex digit, sharing no character, and no 'u'/'U' when one of their characters is above U+00FF: "
         "unescape(deserialize_dict(serialize_dict(m))) == m); C17_dict_roundtrip_flags (the same mappings with values '' and None, serialised with generate_empty / generate_none "
         "on or off, deserialised with any default value and unescaped: an entry written with the equal tag comes back as its text (None as ''), an entry written as a bare key "
         "- it must be non-empty - comes back with the unescaped default value, None included, and nothing raises: fix C17-h, before it None.copy() raised AttributeError); "
         "C17_dict_roundtrip_empty_default (with default_value='' a mapping of texts comes back the same whatever the flags are); C17_unescape_none_kept (unescape of a mapping "
         "fails only because one of its string values is undecodable; None values are kept); C17_default_unescape_witness; C17_nested_serialises (serialize_dict raises nothing on any "
         "tree of mappings/lists/scalars in which no list directly contains None); C17_default_value (an item without the "
         "equal tag yields (item, default_value)); C17_key_value (the first equal tag splits); C17_values_protected (the text "
         "written for a value contains no delimiter/equal-tag character, brace, bracket or quote). "
         "INI (model of parse_ini, split_pair, default_parse_value, isnumber, the lines save_file writes and load_lines reads): "
         "C17_ini_roundtrip / C17_ini_roundtrip_scalars / C17_ini_roundtrip_unique (for every non-empty equal tag and every mapping whose "
         "keys are non-empty stripped ASCII names without equal-tag characters that start no comment and do not end with '+', and whose values "
         "are integers or texts: parsing the lines save_file writes gives upper-cased keys and typed values, in dict order); "
         "C17_ini_file_roundtrip (the same through '\\n'.join and line reading when nothing contains a line break); "
         "C17_ini_value_typing + C17_ini_typing_cases + C17_ini_loaded (which texts load as numbers: [+-]digits is that int, "
         "[+-]digits.digits is that decimal printed without superfluous zeros, matching quotes are removed, everything else - also "
         "'.', '- 5' that isnumber lets through - is the stripped text; an int value loads as itself); "
         "C17_ini_concat / _seen / _unseen ('K=a' then 'K+=b', with or without blanks before '+', stores str(a)+str(b); on an unseen key "
         "the marker '\\x16' followed by str(b)); C17_ini_comments_ignored / C17_ini_comment_line_ignored (blank lines and lines starting "
         "with '#' or '//' after leading white space can be removed anywhere). Hypothesis Exact of the INI value theorems: no numeric or "
         "white-space character outside ASCII, decimals with at most 15 significant digits, at most 7 after the point, zero or >= 0.0001 "
         "(otherwise round(float(x), 7) is not modelled: the model answers unsupported). Examples kept as theorems: C17_nonascii_example, "
         "C17_list_none_cex, C17_maxsplit_escape_example. MAXSPLIT COUNTS REAL CUTS (finding C17-j, fixed by fixes/C17-j.patch: the "
         "raw remainder is split once more before every join): C17_split_maxsplit_real_cuts - the full statement "
         "C17_split_maxsplit_real_cuts_stmt is a THEOREM: for every text, every non-empty delimiter (those containing or ending with the "
         "escape character included), every maxsplit, escape character and trim flag splitWithEscape = splitRef, the character-level "
         "reference (Model/Esc.lean refAux: one pass, an escaped delimiter stays in its item and uses up no split, at most maxsplit REAL "
         "cuts, the rest is the last item); proved directly on the loop (Proofs/Esc.lean scan_ref / whileLoop_ref: the items from the "
         "current one on are the pieces of the limited split of the unread text, with the same budget as the reference; "
         "resplitLast_splitAux: splitting the last piece of split(d, k) once more is split(d, k+1)). The theorems that describe the result "
         "through the pieces of str.split(delimiter, maxsplit) - C17_general_spec, C17_odd_run_stays - now carry the hypothesis escWithin = false "
         "(no escaped delimiter is met while real cuts are limited and still allowed; always true without maxsplit: "
         "C17_general_spec_no_maxsplit, C17_odd_run_stays_no_maxsplit, C17_split_real_cuts_no_maxsplit) because inside that class they "
         "described the defect (C17_general_spec_needs_class); C17_total, C17_no_escape_is_split, the join round trips are derived from the "
         "main theorem and hold for every maxsplit as before. C17_fuel_adequate is restated for the loop without recursion (fuel > length of "
         "the text). C17_split_maxsplit_real_cuts_witnesses: the former counter-examples now give the reference's answers "
         "(C17_split_maxsplit_real_cuts_cex and C17_split_real_cuts_partial are replaced by the main theorem). On the implementation: "
         "stream esc.split (+ /edge, /exhaustive, /real-cuts: the former class included) ties the model to the code, esc.ref ties Lean "
         "splitRef to its Python transcription ref_split, esc.cls Lean escWithin to the harness transcription, and evaluators spec / "
         "real_cuts check the code = the reference on EVERY input (no suppression). "
         "SECOND TIE for split_with_escape: harness/translate_py_esc.py re-translates the source (the while True / for-enumerate-else / break loop, "
         "item and slice assignment, pop, endswith, the takewhile count, slices) into Lean on every run (Gen/EscPy.lean) and Lean re-checks "
         "C17_generated_for_eq (for loop over the translated body = Esc.forScan), C17_generated_else_eq (= Esc.finalTrim), C17_generated_while_eq "
         "(= Esc.whileLoop, every fuel), C17_generated_split_eq (translated function = Esc.splitWithEscapeD, every input and fuel) and "
         "C17_generated_split_is_reference; a change of split_with_escape changes the generated text and either keeps these equalities or fails "
         "a proof obligation (code outside the translated subset: broken tie). "
         "The same translator (harness/translate_py_esc2.py) regenerates the escaping loop of serialize_dict (scalar branch after the capitalisation: "
         "dangerous_characters, the for over the characters, ord, the f-string formats 02x/04x/08x, return) as Gen.EscPy.escBody / escapeLoop: "
         "C17_generated_escape_body_eq (one round = append Esc.escChar) and C17_generated_escape_eq (= Esc.escapeValue (Esc.dangerous d eq) s, every input).",
    note="unescape is modelled as latin-1/backslashreplace encoding followed by CPython's unicode_escape decoder (validated by stream esc.unesc); "
         "upper()/lower() only for ASCII (otherwise unsupported); str.isnumeric() above U+007F is a table (Unicode 15.0) validated at every boundary "
         "by stream ini.isnum; floats are opaque lexemes. No open finding (C17-j - escape character + maxsplit >= 1 + an escaped delimiter among the first maxsplit delimiters - is fixed by fixes/C17-j.patch and the model, the loop proofs and the main theorem follow the patched code); fixes proposed in this round: C17-e (non-ASCII text through unescape), "
         "C17-g ('KEY +=VALUE' with a blank before '+='); fourth wave: C17-h (unescape keeps None / numbers: a key that got the default value no longer makes unescape raise), C17-i (deserialize_list_of_lists hands parse_empty to the sublists). "
         "Default values that are numbers / bools are outside the model (Option Str) and covered by the evaluators default and dict_roundtrip/flags only.",
    design_ref="5/C17",
)

# ---------------------------------------------------------------------------
# translator hook (A.1): regenerate Gen/EscPy.lean from the source under test
# ---------------------------------------------------------------------------
def translate(ctx):
    info = {"file": "lean/N0Verif/Gen/EscPy.lean", "source": tresc.SRC, "translator": "harness/translate_py_esc.py"}
    try:
        legend, changed, differs = tresc.regenerate(core.REPO)
        info.update(names=legend, regenerated_text_changed=changed, differs_from_unchanged_code=differs)
        if differs:
            rc, out = core.sh(["lake", "build", "N0Verif.Gen.EscPy"], cwd=core.LEAN_DIR)
            if rc != 0:
                raise tresc.TranslateError("Lean rejects the generated definitions: " + out[-600:])
    except tresc.TranslateError as e:
        # the code left the translated subset: the tie is broken, not the infrastructure; keep the text of the unchanged code
        ctx.tie_broken.append({"tie": "translator harness/translate_py_esc.py (Python subset -> Lean)", "detail": str(e)})
        tresc.restore_baseline()
        info.update(error=str(e), restored="text generated from the unchanged code")
    ctx.extra["translated"] = info


DELIMS = [";", ",", "|", "\t", "::", "=>"]
ODD_DELIMS = [";\\", "\\", "a;", "!"]
ESCS = [None, "", "\\", "\\", "\\", "!", "^"]
EQS = ["=", ":", "=>", "~"]
SAFE_DELIMS = [";", ",", "|", "\t", "&", "::", "\n"]
SAFE_EQS = ["=", ":", "=>", "~", "="]


def impl():
    from n0struct.n0struct_utils import (split_with_escape, deserialize_list, deserialize_key_value,  # noqa
                                         deserialize_dict, serialize_dict, unescape)

    return split_with_escape, deserialize_list, deserialize_key_value, deserialize_dict, serialize_dict, unescape


# ---------------------------------------------------------------------------
# the specification, transcribed from Lean's `splitSpec` (stream esc.spec ties the two)
# ---------------------------------------------------------------------------
def run_len(e, s):
    n = 0
    while n < len(s) and s[-1 - n] == e:
        n += 1
    return n


def halve(e, s):
    k = run_len(e, s) // 2
    return s[: len(s) - 2 * k] + e * k


def split_spec(e, d, tr, pieces):
    out, pre = [], ""
    for idx, p in enumerate(pieces):
        if idx < len(pieces) - 1 and run_len(e, p) % 2 == 1:
            pre = pre + p[:-1] + d
        else:
            out.append(pre + (halve(e, p) if tr else p))
            pre = ""
    return out


def ref_split(s, d, m, e, tr):
    """CHARACTER-LEVEL reference of split_with_escape (Lean `splitRef`, tied by stream esc.ref): one pass, left to right; an
    occurrence of the delimiter preceded - inside the current item - by an odd run of escapes stays in the item (that escape
    dropped) and uses up no split; otherwise it is a REAL cut, at most maxsplit of them (falsy maxsplit: no limit); what follows
    the last allowed cut is the last item, raw; the trailing run of every item is halved when trimming"""
    if d == "":
        raise ValueError("empty separator")
    if not e:
        return s.split(d, m if m else -1)
    items, cur, i, cuts = [], "", 0, 0
    while i < len(s):
        if s.startswith(d, i):
            if m and cuts >= m:
                cur += s[i:]
                break
            if run_len(e, cur) % 2:
                cur = cur[:-1] + d
            else:
                items.append(halve(e, cur) if tr else cur)
                cur = ""
                cuts += 1
            i += len(d)
        else:
            cur += s[i]
            i += 1
    items.append(halve(e, cur) if tr else cur)
    return items


def esc_within(s, d, m, e):
    """Lean `escWithin e d (limOf m) 0 [] s` (tied by stream esc.cls): scanning like the reference, an escaped delimiter is met
    while real cuts are limited and still allowed"""
    if not (e and d and m):
        return False
    cur, i, left = "", 0, m
    while i < len(s):
        if s.startswith(d, i):
            if left == 0:
                return False
            if run_len(e, cur) % 2:
                return True
            cur, left, i = "", left - 1, i + len(d)
        else:
            cur += s[i]
            i += 1
    return False


def maxsplit_escape_class(c):
    """class of the FIXED finding C17-j (suppresses nothing; counted for coverage only): an escape character is given, maxsplit >= 1, and one of the delimiters met while real cuts
    are still allowed is escaped (the item before it ends with an odd run of escapes).  Before the fix the code differed from the reference exactly
    here; now model and code are PROVED / checked equal to the reference everywhere (C17_split_maxsplit_real_cuts)."""
    s, d, m, e = c.get("s"), c.get("d"), c.get("m"), c.get("e")
    if not (isinstance(s, str) and isinstance(d, str) and d and e and len(e) == 1 and isinstance(m, int) and m >= 1):
        return False
    return esc_within(s, d, m, e)


def okstrs(xs):
    return ("ok %d %s" % (len(xs), enc_strs(xs))).rstrip()


def opt(x):
    return "-" if x is None else enc_str(x)


def optc(e):
    return "-" if not e else enc_str(e)


def tf(b):
    return "T" if b else "F"


# ---------------------------------------------------------------------------
# generators
# ---------------------------------------------------------------------------
def gen_text(rng, d, e, n=None):
    ec = e or "\\"
    al = ["a", "b", d, d, ec, ec, ec, "\\", ";", "=", " ", "{", '"', "x"]
    if n is None:
        n = rng.choice([0, 1, 2, 3, 4, 5, 6, 8, 10, 14])
    return "".join(rng.choice(al) for _ in range(n))


def gen_split_case(rng):
    d = rng.choice(DELIMS + DELIMS + ODD_DELIMS)
    e = rng.choice(ESCS)
    return {"s": gen_text(rng, d, e), "d": d, "m": rng.choice([None, None, 0, 1, 2, 3]), "e": e, "tr": rng.random() < 0.6}


def gen_item(rng, d, e, clean_of=()):
    al = [c for c in ["a", "b", "x", " ", "=", "{", '"', "\\", "!", ";", ","] if all(c not in bad for bad in clean_of)]
    n = rng.choice([0, 0, 1, 2, 3, 5])
    return "".join(rng.choice(al) for _ in range(n))


RESERVED = ["{", "}", "[", "]", '"', "\\"]


def gen_value(rng, d, eq, nonascii=False):
    al = ["a", "b", "Z", "0", "9", "x", " ", "\\x3b", "\\"] + RESERVED + list(d) + list(eq) + ["\t", "\n", "'", "~"]
    if nonascii:
        al = al + ["é", "€", "ß", "\U0001f600", "\u00ff", "\u0100"]
    n = rng.choice([0, 1, 2, 3, 4, 6, 9])
    return "".join(rng.choice(al) for _ in range(n))


def gen_key(rng, d, eq, clean=True):
    al = ["k", "K", "a", "1", "_", " ", "{", "\\", "x"]
    if not clean:
        al = al + list(d) + list(eq)
    al = [c for c in al if not clean or (c not in d and c not in eq)]
    n = rng.choice([0, 1, 1, 2, 3])
    return "".join(rng.choice(al) for _ in range(n))


def gen_flat(rng, d, eq, nonascii=False, clean=True):
    m = {}
    for _ in range(rng.choice([0, 1, 2, 3, 4])):
        m[gen_key(rng, d, eq, clean)] = gen_value(rng, d, eq, nonascii)
    return m


def gen_scalar(rng, d, eq, allow_none=True):
    k = rng.randrange(8)
    if k == 0 and allow_none:
        return None
    if k == 1:
        return rng.choice([0, 1, -12, 10**12])
    if k == 2:
        return rng.choice([True, False])
    if k == 3:
        return rng.choice([1.5, -0.25, 1e20])
    return gen_value(rng, d, eq)


def gen_tree(rng, d, eq, depth, none_in_lists):
    k = rng.randrange(10)
    if depth <= 0 or k < 4:
        return gen_scalar(rng, d, eq)
    if k < 8:
        return {gen_key(rng, d, eq, rng.random() < 0.8): gen_tree(rng, d, eq, depth - 1, none_in_lists) for _ in range(rng.choice([0, 1, 2, 3]))}
    out = []
    for _ in range(rng.choice([0, 1, 2, 3])):
        x = gen_tree(rng, d, eq, depth - 1, none_in_lists)
        if x is None and not none_in_lists:
            x = ""
        out.append(x)
    return out


def gen_nested_mapping(rng, d, eq, depth, none_in_lists=False):
    return {gen_key(rng, d, eq): gen_tree(rng, d, eq, depth, none_in_lists) for _ in range(rng.choice([1, 2, 3]))}


def non_ascii_case(c):
    """some text of the case is outside ASCII"""
    def na(x):
        if isinstance(x, str):
            return any(ord(ch) > 127 for ch in x)
        if isinstance(x, dict):
            return any(na(k) or na(v) for k, v in x.items())
        if isinstance(x, list):
            return any(na(v) for v in x)
        return False

    return na(c)


CLASSIFIERS = {}


# ---------------------------------------------------------------------------
# B: canonical answers of the implementation
# ---------------------------------------------------------------------------
def split_line(c):
    return "esc.split %s %s %d %s %s" % (enc_str(c["s"]), enc_str(c["d"]), c["m"] or 0, optc(c["e"]), tf(c["tr"]))


def split_impl(c):
    swe = impl()[0]
    r = core.call(swe, c["s"], c["d"], c["m"], c["e"], c["tr"])
    return okstrs(r[1]) if r[0] == "ok" else "err " + r[1]


def spec_line(c):
    return "esc.spec %s %s %d %s %s" % (enc_str(c["s"]), enc_str(c["d"]), c["m"] or 0, enc_str(c["e"]), tf(c["tr"]))


def spec_py(c):
    return okstrs(split_spec(c["e"], c["d"], c["tr"], c["s"].split(c["d"], c["m"] or -1)))


def ref_line(c):
    return "esc.ref %s %s %d %s %s" % (enc_str(c["s"]), enc_str(c["d"]), c["m"] or 0, optc(c["e"]), tf(c["tr"]))


def ref_py(c):
    r = core.call(ref_split, c["s"], c["d"], c["m"], c["e"], c["tr"])
    return okstrs(r[1]) if r[0] == "ok" else "err " + r[1]


def cls_line(c):
    return "esc.cls %s %s %d %s" % (enc_str(c["s"]), enc_str(c["d"]), c["m"] or 0, enc_str(c["e"]))


def cls_py(c):
    return "ok T" if esc_within(c["s"], c["d"], c["m"], c["e"]) else "ok F"


def dlist_line(c):
    return "esc.dlist %s %s %s %s" % (enc_str(c["s"]), enc_str(c["d"]), tf(c["pe"]), optc(c["e"]))


def dlist_impl(c):
    dl = impl()[1]
    r = core.call(dl, c["s"], c["d"], parse_empty=c["pe"], escape_character=c["e"])
    return okstrs(r[1]) if r[0] == "ok" else "err " + r[1]


def kv_line(c):
    return "esc.kv %s %s %s %s" % (enc_str(c["s"]), enc_str(c["eq"]), opt(c["dk"]), opt(c["dv"]))


def kv_impl(c):
    kv = impl()[2]
    r = core.call(kv, c["s"], equal_tag=c["eq"], default_key=c["dk"], default_value=c["dv"])
    if r[0] != "ok":
        return "err " + r[1]
    return "ok %s %s" % (enc_str(r[1][0]), opt(r[1][1]))


def pairs(dct, optional=True):
    out = ["%d" % len(dct)]
    for k, v in dct.items():
        out.append(enc_str(k))
        out.append(opt(v) if optional else enc_str(v))
    return "ok " + " ".join(out)


def ddict_line(c):
    return "esc.ddict %s %s %s %s %s %s" % (enc_str(c["s"]), enc_str(c["d"]), enc_str(c["eq"]), tf(c["pe"]), opt(c["dk"]), opt(c["dv"]))


def ddict_impl(c):
    dd = impl()[3]
    r = core.call(dd, c["s"], c["d"], parse_empty=c["pe"], equal_tag=c["eq"], default_key=c["dk"], default_value=c["dv"])
    return pairs(r[1]) if r[0] == "ok" else "err " + r[1]


def ser_line(c):
    return "esc.ser %s %s %s %s %d %d %s" % (enc_str(c["d"]), enc_str(c["eq"]), tf(c["ge"]), tf(c["gn"]), c["ck"], c["cv"], enc_val(c["v"]))


def ser_impl(c):
    sd = impl()[4]
    r = core.call(sd, c["v"], c["d"], c["eq"], c["ge"], c["gn"], c["ck"], c["cv"])
    if r[0] != "ok":
        return "err " + r[1]
    return "ok N" if r[1] is None else "ok S" + enc_str(r[1])


def unesc_line(c):
    return "esc.unesc %s" % enc_str(c["s"])


def unesc_impl(c):
    un = impl()[5]
    r = core.call(un, c["s"])
    if r[0] != "ok":
        return "err " + r[1]
    if any(0xD800 <= ord(ch) <= 0xDFFF for ch in r[1]):
        return "unsupported"
    return "ok " + enc_str(r[1])


def rt_line(c):
    return "esc.rt %s %s %s" % (enc_str(c["d"]), enc_str(c["eq"]), enc_val(c["m"]))


def rt_impl(c):
    _, _, _, dd, sd, un = impl()
    r = core.call(lambda: un(dd(sd(c["m"], c["d"], c["eq"]), c["d"], equal_tag=c["eq"])))
    if r[0] != "ok":
        return "err " + r[1]
    if any(any(0xD800 <= ord(ch) <= 0xDFFF for ch in v) for v in r[1].values() if isinstance(v, str)):
        return "unsupported"
    return pairs(r[1])


def rtf_line(c):
    return "esc.rtf %s %s %s %s %s %s" % (enc_str(c["d"]), enc_str(c["eq"]), tf(c["ge"]), tf(c["gn"]), opt(c["dv"]), enc_val(c["m"]))


def rtf_impl(c):
    """serialize_dict under generate_empty / generate_none, deserialize_dict with a default value, unescape"""
    _, _, _, dd, sd, un = impl()
    r = core.call(lambda: un(dd(sd(c["m"], c["d"], c["eq"], c["ge"], c["gn"]), c["d"], equal_tag=c["eq"], default_value=c["dv"])))
    if r[0] != "ok":
        return "err " + r[1]
    if any(any(0xD800 <= ord(ch) <= 0xDFFF for ch in v) for v in r[1].values() if isinstance(v, str)):
        return "unsupported"
    return pairs(r[1])


def ddu_line(c):
    return "esc.ddu %s %s %s %s %s %s" % (enc_str(c["s"]), enc_str(c["d"]), enc_str(c["eq"]), tf(c["pe"]), opt(c["dk"]), opt(c["dv"]))


def ddu_impl(c):
    """unescape(deserialize_dict(...)): keys without the equal tag hold the default value (None unless given)"""
    dd, un = impl()[3], impl()[5]
    r = core.call(lambda: un(dd(c["s"], c["d"], parse_empty=c["pe"], equal_tag=c["eq"], default_key=c["dk"], default_value=c["dv"])))
    if r[0] != "ok":
        return "err " + r[1]
    if any(any(0xD800 <= ord(ch) <= 0xDFFF for ch in v) for v in r[1].values() if isinstance(v, str)):
        return "unsupported"
    return pairs(r[1])


# ---------------------------------------------------------------------------
# C: the statement on the implementation
# ---------------------------------------------------------------------------
def check_spec(c):
    """split_with_escape = the character-level reference (delimiter non-empty, not ending with the escape character): an
    escaped delimiter stays inside its item, every other delimiter is a cut, at most maxsplit REAL cuts.  (Outside the former class
    of C17-j the reference equals Lean's splitSpec over the pieces of str.split(d, maxsplit): stream esc.spec.)"""
    swe = impl()[0]
    want = ref_split(c["s"], c["d"], c["m"], c["e"], c["tr"])
    r = core.call(swe, c["s"], c["d"], c["m"], c["e"], c["tr"])
    if r[0] != "ok":
        return {"raised": r[1], "want": want}
    if r[1] != want:
        return {"got": r[1], "want": want}
    return None


def check_real_cuts(c):
    """every delimiter, every escape character (None / '' included), every maxsplit, the empty delimiter's ValueError included:
    split_with_escape = the character-level reference"""
    swe = impl()[0]
    want = core.call(ref_split, c["s"], c["d"], c["m"], c["e"], c["tr"])
    r = core.call(swe, c["s"], c["d"], c["m"], c["e"], c["tr"])
    if (r[0], list(r[1]) if r[0] == "ok" else r[1]) != (want[0], want[1]):
        return {"got": list(r), "want": list(want)}
    return None


def check_plain(c):
    """no escape character in the text (or none given): equals str.split, error included"""
    swe = impl()[0]
    want = core.call(lambda: c["s"].split(c["d"], c["m"] or -1))
    r = core.call(swe, c["s"], c["d"], c["m"], c["e"], c["tr"])
    if r != want:
        return {"got": list(r), "want": list(want)}
    return None


def check_independent(c):
    """closed boundary: split(left + d + right) = split(left) + split(right) when the last piece
    of `left` ends with an even run"""
    swe = impl()[0]
    e, d, tr = c["e"], c["d"], c["tr"]
    a = core.call(swe, c["left"], d, None, e, tr)
    b = core.call(swe, c["right"], d, None, e, tr)
    ab = core.call(swe, c["left"] + d + c["right"], d, None, e, tr)
    if a[0] != "ok" or b[0] != "ok" or ab[0] != "ok":
        return {"raised": [a, b, ab]}
    if ab[1] != a[1] + b[1]:
        return {"whole": ab[1], "left": a[1], "right": b[1]}
    return None


def check_join(c):
    dl = impl()[1]
    text = c["d"].join(c["items"])
    want = list(c["items"]) if c["pe"] else [i for i in c["items"] if i]
    r = core.call(dl, text, c["d"], parse_empty=c["pe"], escape_character=c["e"])
    if r[0] != "ok":
        return {"text": text, "raised": r[1], "want": want}
    if r[1] != want:
        return {"text": text, "got": r[1], "want": want}
    return None


def writes_eq(v, ge, gn):
    """does serialize_dict write the equal tag after the key (the statement's 'k=v'; otherwise the bare key)"""
    if v is None:
        return bool(gn or ge)
    return bool(v) or bool(ge)


def check_dict_roundtrip(c):
    """unescape(deserialize_dict(serialize_dict(m))) == m (same keys, same order).  With the optional fields ge / gn / dv
    (generate_empty, generate_none, default_value; values may then be None): an entry written with the equal tag comes
    back as its text (None as ''), an entry written as a bare key comes back with the default value - whatever it is
    (None, a number, a bool, a text) - and nothing raises (C17_dict_roundtrip_flags, fix C17-h)"""
    _, _, _, dd, sd, un = impl()
    m, d, eq = c["m"], c["d"], c["eq"]
    if "ge" not in c:
        r = core.call(lambda: un(dd(sd(m, d, eq), d, equal_tag=eq)))
        if r[0] != "ok":
            return {"raised": r[1], "text": core.call(sd, m, d, eq)[1]}
        if r[1] != m or list(r[1]) != list(m):
            return {"got": r[1], "want": m, "text": sd(m, d, eq)}
        return None
    ge, gn, dv = c["ge"], c["gn"], c["dv"]
    want = {k: ((v or "") if writes_eq(v, ge, gn) else dv) for k, v in m.items()}
    r = core.call(lambda: un(dd(sd(m, d, eq, ge, gn), d, equal_tag=eq, default_value=dv)))
    if r[0] != "ok":
        return {"raised": r[1], "text": core.call(sd, m, d, eq, ge, gn)[1], "want": want}
    if r[1] != want or list(r[1]) != list(want) or any(type(r[1][k]) is not type(want[k]) for k in want):
        return {"got": r[1], "want": want, "text": sd(m, d, eq, ge, gn)}
    return None


def check_protected(c):
    """reserved characters in values are protected: the value part of every entry contains no
    delimiter, equal tag, brace, bracket or quote, and a backslash only in front of `x`, `u` or `U`
    (the `\\xNN` / `\\uNNNN` / `\\UNNNNNNNN` notation)"""
    sd = impl()[4]
    d, eq = c["d"], c["eq"]
    for k, v in c["m"].items():
        r = core.call(sd, {k: v}, d, eq)
        if r[0] != "ok" or not isinstance(r[1], str) or not r[1].startswith(k + eq):
            return {"entry": [k, v], "got": list(r)}
        ev = r[1][len(k + eq):]
        bad = [ch for ch in ev if ch in '{}[]"' or ch in d or ch in eq]
        if bad or any(ch == "\\" and ev[i + 1:i + 2] not in ("x", "u", "U") for i, ch in enumerate(ev)):
            return {"entry": [k, v], "text": r[1], "unprotected": bad}
    return None


def check_nested(c):
    sd = impl()[4]
    r = core.call(sd, c["m"], c["d"], c["eq"], True, True, c.get("ck", 0), c.get("cv", 0))
    if r[0] != "ok":
        return {"raised": r[1]}
    if not isinstance(r[1], str):
        return {"got": repr(r[1])}
    return None


def check_default(c):
    """an item without the equal tag gets the default value (and, in a dict, so does its key)"""
    _, _, kv, dd, _, _ = impl()
    r = core.call(kv, c["item"], equal_tag=c["eq"], default_value=c["dv"])
    if r != ("ok", (c["item"], c["dv"])):
        return {"got": list(r), "want": [c["item"], c["dv"]]}
    text = c["d"].join([c["item"], "q" + c["eq"] + "1"])
    r = core.call(dd, text, c["d"], equal_tag=c["eq"], default_value=c["dv"])
    want = {c["item"]: c["dv"], "q": "1"} if c["item"] else {"q": "1"}
    if r != ("ok", want):
        return {"text": text, "got": list(r), "want": want}
    # the two clauses of the statement compose: the mapping just deserialised goes through unescape (fix C17-h); the
    # default value - None, a number, a bool, or a text without escapes - is still there afterwards
    un = impl()[5]
    u = core.call(un, r[1])
    if u[0] != "ok" or u[1] != want or list(u[1]) != list(want) or any(type(u[1][k]) is not type(want[k]) for k in want):
        return {"text": text, "unescape": list(u), "want": want}
    return None


def check_keyvalue(c):
    """the first equal tag splits: key free of equal-tag characters, any value"""
    kv = impl()[2]
    r = core.call(kv, c["k"] + c["eq"] + c["v"], equal_tag=c["eq"], default_value=c.get("dv"))
    if r != ("ok", (c["k"], c["v"])):
        return {"got": list(r), "want": [c["k"], c["v"]]}
    return None


# --- deserialize_list_of_lists / deserialize_fixed_list / get_value_by_tag ------
def impl2():
    from n0struct.n0struct_utils import deserialize_list_of_lists, deserialize_fixed_list, get_value_by_tag  # noqa

    return deserialize_list_of_lists, deserialize_fixed_list, get_value_by_tag


def dlol_line(c):
    return "esc.dlol %s %s %s %s" % (enc_str(c["s"]), enc_str(c["d"]), enc_str(c["ds"]), tf(c["pe"]))


def dlol_impl(c):
    r = core.call(impl2()[0], c["s"], c["d"], delimiter_for_sublists=c["ds"], parse_empty=c["pe"])
    if r[0] != "ok":
        return "err " + r[1]
    if not (isinstance(r[1], list) and all(isinstance(l, list) and all(isinstance(x, str) for x in l) for l in r[1])):
        return "err BadShape"
    return ("ok %d %s" % (len(r[1]), " ".join(("%d %s" % (len(l), enc_strs(l))).rstrip() for l in r[1]))).rstrip()


def dfix_line(c):
    return "esc.dfix %s %s %d %s %s" % (enc_str(c["s"]), enc_str(c["d"]), c["n"], opt(c["dflt"]), tf(c["pe"]))


def dfix_impl(c):
    r = core.call(impl2()[1], c["s"], c["n"], c["d"], default_item=c["dflt"], parse_empty=c["pe"])
    if r[0] != "ok":
        return "err " + r[1]
    return ("ok %d %s" % (len(r[1]), " ".join(opt(x) for x in r[1]))).rstrip()


def gvt_line(c):
    return "esc.gvt %s %s %s %s %s %s" % (enc_str(c["tag"]), enc_str(c["s"]), enc_str(c["d"]), enc_str(c["eq"]), opt(c["dk"]), opt(c["dv"]))


def gvt_impl(c):
    r = core.call(impl2()[2], c["tag"], c["s"], c["d"], equal_tag=c["eq"], default_key=c["dk"], default_value=c["dv"])
    if r[0] != "ok":
        return "err " + r[1]
    return "ok " + opt(r[1])


def check_join_lol(c):
    """joining the inner items with the inner delimiter and the lists with the outer one, then deserialize_list_of_lists:
    parse_empty=True returns the lists (empty items and the list [''] included - fix C17-i); the default drops the list ['']
    (its text is empty) and the empty items of every other list (C17_list_of_lists_roundtrip)"""
    text = c["d"].join(c["ds"].join(l) for l in c["lists"])
    want = [list(l) for l in c["lists"]] if c["pe"] else [[it for it in l if it] for l in c["lists"] if l != [""]]
    r = core.call(impl2()[0], text, c["d"], delimiter_for_sublists=c["ds"], parse_empty=c["pe"])
    if r[0] != "ok":
        return {"text": text, "raised": r[1], "want": want}
    if r[1] != want:
        return {"text": text, "got": r[1], "want": want}
    return None


def check_fixed_list(c):
    """deserialize_fixed_list(join(items), n, parse_empty=True) is the items padded with the default item / cut to n"""
    text = c["d"].join(c["items"])
    want = (list(c["items"]) + [c["dflt"]] * c["n"])[: c["n"]]
    r = core.call(impl2()[1], text, c["n"], c["d"], default_item=c["dflt"], parse_empty=True)
    if r[0] != "ok" or r[1] != want or len(r[1]) != c["n"]:
        return {"text": text, "got": list(r), "want": want}
    return None


def check_value_by_tag(c):
    """get_value_by_tag(k, 'k=v;...') is the value of k, or the default value when k is missing / bare / has the empty value"""
    m, d, eq, dv = c["m"], c["d"], c["eq"], c["dv"]
    text = d.join(k if v is None else k + eq + v for k, v in m.items())
    for tag in list(m) + [c["missing"]]:
        want = m.get(tag) or dv
        r = core.call(impl2()[2], tag, text, d, equal_tag=eq, default_value=dv)
        if r != ("ok", want):
            return {"text": text, "tag": tag, "got": list(r), "want": want}
    return None


# --- INI (no Lean model: reference written from the statement) --------------
def ini_typed(text):
    s = text.strip()
    body = s[1:].strip() if s[:1] in "+-" and s[:1] else s
    digits = body.replace(".", "0", 1) if body.count(".") == 1 else body
    if digits and digits.isnumeric():
        try:
            return round(float(s), 7) if "." in s else int(s)
        except ValueError:
            pass  # looks numeric, is not a number literal: stays text (fix C17-f)
    if len(s) >= 2 and s[0] == s[-1] and s[0] in "\"'":
        return s[1:-1]
    return s


def ini_reference(m, eq="="):
    out = {}
    for k, v in m.items():
        key = k.strip().upper()
        val = ini_typed(str(v))
        if key.endswith("+"):
            key = key[:-1].rstrip()
            val = "%s%s" % (out[key], val) if key in out else "\x16%s" % (val,)
        out[key] = val
    return out


def check_ini(c):
    from n0struct import load_ini, save_file  # noqa

    m = c["m"]
    fd, path = tempfile.mkstemp(suffix=".ini", prefix="c17_")
    os.close(fd)
    try:
        r = core.call(save_file, path, dict(m), EOL=c["eol"])
        if r[0] != "ok":
            return {"save raised": r[1]}
        r = core.call(load_ini, path)
        if r[0] != "ok":
            return {"load raised": r[1]}
        want = ini_reference(m)
        got = r[1]
        if got != want or list(got) != list(want) or [type(v) for v in got.values()] != [type(v) for v in want.values()]:
            return {"got": repr(got), "want": repr(want)}
        return None
    finally:
        try:
            os.unlink(path)
        except OSError:
            pass


def gen_ini(rng):
    m = {}
    keys = ["a", "Key", "b_1", " k ", "Path", "n", "x.y", "a"]
    for _ in range(rng.choice([0, 1, 2, 3, 4, 5])):
        k = rng.choice(keys)
        if rng.random() < 0.25:
            k = k.rstrip() + rng.choice(["+", "+", " +"])
        t = rng.randrange(9)
        if t == 0:
            v = rng.choice([0, 7, -3, 10**10])
        elif t == 1:
            v = rng.choice([1.5, -0.25, 3.14159265358979, 2.0])
        elif t == 2:
            v = rng.choice(["12", " 12 ", "+5", "-7", "1.50", "1.2.3", ".5", "5.", "-", "1e3", ".", "- 5", "+ 7", "-.", "\u00b2", "\u0663"])
        elif t == 3:
            v = rng.choice(['"quoted"', "'single'", '" sp "', '"', "'a\"", '""'])
        elif t == 4:
            v = rng.choice(["", " ", "a=b", "# not a comment", "// x", "a b", "v+"])
        else:
            v = "".join(rng.choice("abc XYZ_=/") for _ in range(rng.choice([1, 2, 4, 7])))
        m[k] = v
    return m


def ini_in_statement(m):
    """lines the statement speaks about: a key is a non-empty name that does not start a comment"""
    for k, v in m.items():
        ks = k.strip()
        if not ks or ks.startswith("#") or ks.startswith("//") or "=" in k or "\n" in k or "\r" in k:
            return False
        if isinstance(v, str) and ("\n" in v or "\r" in v):
            return False
    return True



# --- INI: Lean model `Model/Ini.lean` (streams ini.*) ------------------------
INI_EQS = ["=", "=", "=", ":", "=>", "= "]


def ini_impl():
    from n0struct.n0struct_comprehensions import parse_ini, load_ini, default_parse_value  # noqa
    from n0struct.n0struct_utils import isnumber  # noqa
    from n0struct.n0struct_files import save_file, load_lines  # noqa

    return parse_ini, load_ini, default_parse_value, isnumber, save_file, load_lines


def ini_scalar_ok(v):
    return isinstance(v, (int, float, str)) and not isinstance(v, bool)


def ini_show_dict(r):
    """('ok', dict) / ('err', cls) -> the driver's answer form"""
    if r[0] != "ok":
        return "err " + r[1]
    if not isinstance(r[1], dict) or not all(isinstance(k, str) and ini_scalar_ok(v) for k, v in r[1].items()):
        return "ok ?" + repr(r[1])
    return "ok " + enc_val(dict(r[1]))


def ini_value_line(c):
    return "ini.value %s" % enc_str(c["s"])


def ini_value_impl(c):
    dpv = ini_impl()[2]
    r = core.call(dpv, ("", c["s"]), "")
    if r[0] != "ok":
        return "err " + r[1]
    return "ok " + enc_val(r[1]) if ini_scalar_ok(r[1]) else "ok ?" + repr(r[1])


def ini_isnum_line(c):
    return "ini.isnum %s" % enc_str(c["s"])


def ini_isnum_impl(c):
    r = core.call(ini_impl()[3], c["s"])
    return "ok " + tf(r[1]) if r[0] == "ok" else "err " + r[1]


def ini_parse_line(c):
    return ("ini.parse %s %s" % (enc_str(c["eq"]), " ".join(enc_str(x) for x in c["lines"]))).rstrip()


def ini_parse_impl(c):
    return ini_show_dict(core.call(ini_impl()[0], list(c["lines"]), equal_tag=c["eq"]))


def _with_file(fn):
    fd, path = tempfile.mkstemp(suffix=".ini", prefix="c17_")
    os.close(fd)
    try:
        return fn(path)
    finally:
        try:
            os.unlink(path)
        except OSError:
            pass


def ini_rt_line(c):
    return "ini.rt %s %s" % (enc_str(c["eq"]), enc_val(c["m"]))


def ini_rt_impl(c):
    _, load_ini, _, _, save_file, _ = ini_impl()

    def go(path):
        r = core.call(save_file, path, dict(c["m"]), EOL=c["eol"], equal_tag=c["eq"])
        if r[0] != "ok":
            return "err " + r[1]
        return ini_show_dict(core.call(load_ini, path, equal_tag=c["eq"]))

    return _with_file(go)


def ini_read_line(c):
    return "ini.read %s" % enc_str(c["s"])


def ini_read_impl(c):
    _, _, _, _, save_file, load_lines = ini_impl()

    def go(path):
        r = core.call(save_file, path, c["s"], EOL="\n")
        if r[0] != "ok":
            return "err " + r[1]
        r = core.call(lambda: list(load_lines(path)))
        return okstrs(r[1]) if r[0] == "ok" else "err " + r[1]

    return _with_file(go)


NUM_TEXTS = ["12", " 12 ", "+5", "-7", "007", "-0", "1.50", "1.2.3", ".5", "5.", "-", "+", "1e3", ".", "- 5", "+ 7", "-.", "+.5", "-0.0", "0.0001",
             "0.00001", "1.12345678", "1.1234567", "123456789012345.", "1234567890123456.", "12345678.1234567", "123456789.1234567", "00012.5000",
             "²", "٣", "1٣", "- 5", "½", "5 ", "--5", "+-5", "5-", "5+", "1 2", "1_0", "0x10", "１", "1.٣"]
QUOTE_TEXTS = ['"quoted"', "'single'", '" sp "', '"', "'", "'a\"", '""', "''", '"a', 'a"', "\"'", ' "x" ', '"12"', "'1.5'", '"a"b"']
PLAIN_TEXTS = ["", " ", "a=b", "# not a comment", "// x", "a b", "v+", "abc", "True", "None", "é", "café", "€5", "x\ty", "\x16"]


def gen_ini_value_text(rng):
    t = rng.randrange(10)
    if t < 3:
        return rng.choice(NUM_TEXTS[:28] if rng.random() < 0.8 else NUM_TEXTS)
    if t == 3:
        return rng.choice(QUOTE_TEXTS)
    if t == 4:
        return rng.choice(PLAIN_TEXTS)
    if t < 7:  # decimals and integers of every length
        ip = "".join(rng.choice("0123456789" if rng.random() < 0.7 else "09") for _ in range(rng.choice([0, 0, 1, 1, 1, 2, 2, 3, 4, 5, 8, 9, 12, 14, 16])))
        fp = "".join(rng.choice("0123456789" if rng.random() < 0.7 else "059") for _ in range(rng.choice([0, 0, 1, 1, 2, 2, 3, 3, 5, 6, 7, 7, 8])))
        body = ip + rng.choice([".", ".", ".", ""]) + fp
        return rng.choice(["", "", " ", "\t"]) + rng.choice(["", "", "+", "-", "- ", "+\t"]) + body + rng.choice(["", "", " ", "\n"])
    al = ["0", "1", "5", "9", ".", ".", "+", "-", " ", '"', "'", "a", "e", "=", "\t", "²", "٣", "é", " ", "_"]
    return "".join(rng.choice(al) for _ in range(rng.choice([0, 1, 1, 2, 2, 3, 4, 6])))


def gen_ini_key_text(rng, eq):
    t = rng.randrange(8)
    if t == 0:
        k = rng.choice(["", " ", "#k", "//k", "/k", " #k", "k#", "k+", "k +", "k+ ", "+", "++", "k++", "kk", "K", "a.b"] + (["é", "straße", "µ"] if rng.random() < 0.2 else []))
    else:
        k = "".join(rng.choice(["k", "K", "a", "b", "1", "_", " ", ".", "/", "+"]) for _ in range(rng.choice([1, 1, 2, 3])))
    if rng.random() < 0.3:
        k = k + "+"
    if rng.random() < 0.15:
        k = rng.choice([" ", "\t", "  "]) + k
    if rng.random() < 0.15:
        k = k + " "
    return k


def gen_ini_line(rng, eq):
    t = rng.randrange(12)
    if t == 0:
        return rng.choice(["", " ", "\t", "  \t ", "\n"])
    if t == 1:
        return rng.choice(["# comment", "// comment", "  # k=v", "\t//k=v", "#", "//", "#k+=v", "/ k=v", "/", " /=/"])
    if t == 2:  # no equal tag on the line
        return gen_ini_key_text(rng, eq).replace(eq, "")
    if t == 3:  # several equal tags
        return gen_ini_key_text(rng, eq) + eq + gen_ini_value_text(rng) + eq + gen_ini_value_text(rng)
    return gen_ini_key_text(rng, eq) + rng.choice(["", "", " "]) + eq + gen_ini_value_text(rng)


def gen_ini_lines_case(rng):
    eq = rng.choice(INI_EQS + ([""] if rng.random() < 0.05 else []))
    return {"eq": eq, "lines": [gen_ini_line(rng, eq) for _ in range(rng.choice([0, 1, 1, 2, 3, 4, 6, 9]))]}


def gen_ini_mapping(rng, eq, wild=False):
    m = {}
    for _ in range(rng.choice([0, 1, 2, 3, 4, 5])):
        k = gen_ini_key_text(rng, eq)
        if not wild:
            k = k.replace(eq.strip() or "=", "")
        t = rng.randrange(8)
        if t == 0:
            v = rng.choice([0, 7, -3, 10**10, -10**20, 12345])
        elif t == 1:
            v = rng.choice([1.5, -0.25, 3.14159265358979, 2.0, 1e20, 1e-5, -0.0, 0.1 + 0.2, 1234567.1234567])
        elif t == 2 and wild:
            v = rng.choice([None, True, False, "a\nb=c", "x\r", "\r\nk=1"])
        else:
            v = gen_ini_value_text(rng)
            if not wild:
                v = v.replace("\n", "").replace("\r", "")
        m[k] = v
    return m


def ini_key_in_statement(k, eq):
    """keys of the statement's mappings: stripped non-empty ASCII names without equal-tag characters
    that do not start a comment (hypotheses of C17_ini_roundtrip)"""
    return (bool(k) and k == k.strip() and k.isascii() and not k.startswith("#") and not k.startswith("//")
            and not any(ch in eq for ch in k) and "\n" not in k and "\r" not in k)


def ini_exact_text(v):
    """values for which the Lean model answers (not `unsupported`): no numeric or white-space character outside
    ASCII, decimals short enough for round(float(x), 7) to be the decimal itself"""
    s = v.strip()
    if any(ord(ch) > 127 and (ch.isnumeric() or ch.isspace()) for ch in s):
        return False
    b = s[1:] if s[:1] in ("+", "-") else s
    ip, dot, fp = b.partition(".")
    if dot and (ip + fp).isdigit() and ip.isascii() and fp.isascii():
        i, f = ip.lstrip("0"), fp.rstrip("0")
        if len(f) > 7 or len(i) + len(f) > 15 or (not i and f and len(f) - len(f.lstrip("0")) >= 4):
            return False
    return True


def ini_lines_reference(lines, eq="="):
    """parse_ini as the statement reads: comment and blank lines skipped, first equal tag splits, keys stripped and
    upper-cased, values typed, `K+` keys concatenate (a first `K+` starts with the marker)"""
    out = {}
    for line in lines:
        s = line.lstrip()
        if not s or s.startswith("#") or s.startswith("//"):
            continue
        k, v = s.split(eq, 1) if eq and eq in s else (s, "")
        key, val = k.strip().upper(), ini_typed(v)
        if key.endswith("+"):
            key = key[:-1].rstrip()  # the key is a stripped name (fix C17-g)
            val = "%s%s" % (out[key], val) if key in out else "\x16%s" % (val,)
        out[key] = val
    return out


def _same_dict(got, want):
    return got == want and list(got) == list(want) and [type(v) for v in got.values()] == [type(v) for v in want.values()]


def check_ini_concat(c):
    """`K=a` then `K+=b` gives str(a)+str(b) (typed values, printed); `K+=b` on an unseen key gives marker+b;
    a second parse in the same process gives the same"""
    parse_ini = ini_impl()[0]
    K, a, b, eq = c["k"], c["a"], c["b"], c["eq"]
    ta, tb = ini_typed(a), ini_typed(b)
    key = K.strip().upper()
    for lines, want in (([K + eq + a, K + "+" + eq + b], {key: "%s%s" % (ta, tb)}),
                        ([K + eq + a, K + " +" + eq + b], {key: "%s%s" % (ta, tb)}),         # blank before '+=' (fix C17-g)
                        ([" " + K + "\t+" + eq + b], {key: "\x16%s" % (tb,)}),
                        ([K + "+" + eq + b], {key: "\x16%s" % (tb,)}),
                        ([K + "+" + eq + a, K + "+" + eq + b], {key: "\x16%s%s" % (ta, tb)}),
                        ([K + "+" + eq + b, K + eq + a], {key: ta})):
        for _ in range(2):
            r = core.call(parse_ini, list(lines), equal_tag=eq)
            if r[0] != "ok":
                return {"lines": lines, "raised": r[1]}
            if not _same_dict(r[1], want):
                return {"lines": lines, "got": repr(r[1]), "want": repr(want)}
    return None


def check_ini_comments(c):
    """comment and blank lines change nothing"""
    parse_ini = ini_impl()[0]
    kept = [ln for ln, noise in zip(c["lines"], c["noise"]) if not noise]
    a = core.call(parse_ini, list(c["lines"]), equal_tag=c["eq"])
    b = core.call(parse_ini, kept, equal_tag=c["eq"])
    if a[0] != "ok" or b[0] != "ok":
        return {"raised": [a[1] if a[0] != "ok" else None, b[1] if b[0] != "ok" else None]}
    if not _same_dict(a[1], b[1]):
        return {"with": repr(a[1]), "without": repr(b[1])}
    return None


def check_ini_lines(c):
    """parse_ini(lines) = the reference written from the statement"""
    parse_ini = ini_impl()[0]
    r = core.call(parse_ini, list(c["lines"]), equal_tag=c["eq"])
    want = ini_lines_reference(c["lines"], c["eq"])
    if r[0] != "ok":
        return {"raised": r[1], "want": repr(want)}
    if not _same_dict(r[1], want):
        return {"got": repr(r[1]), "want": repr(want)}
    return None


def _is_noise(line):
    s = line.lstrip()
    return (not s) or s.startswith("#") or s.startswith("//")


# ---------------------------------------------------------------------------
EVALS = {
    "spec": check_spec, "plain": check_plain, "total": None, "independent": check_independent, "join": check_join,
    "dict_roundtrip": check_dict_roundtrip, "nested": check_nested, "default": check_default, "ini": check_ini,
    "keyvalue": check_keyvalue, "protected": check_protected,
    "join_lol": check_join_lol, "fixed_list": check_fixed_list, "value_by_tag": check_value_by_tag,
    "ini_concat": check_ini_concat, "ini_comments": check_ini_comments, "ini_lines": check_ini_lines,
}


def check_total(c):
    swe = impl()[0]
    r = core.call(swe, c["s"], c["d"], c["m"], c["e"], c["tr"])
    if r[0] != "ok":
        return {"raised": r[1]}
    return None


EVALS["total"] = check_total
EVALS["real_cuts"] = check_real_cuts


def _base(ev):
    return ev.split("/")[0]


def shrink_failure(evaluator, case):
    fn = EVALS.get(_base(evaluator))
    if fn is None:
        return case
    valid = VALID.get(_base(evaluator), lambda c: True)

    def still(c):
        if _base(evaluator).startswith("ini_") and (not isinstance(c, dict) or c.get("eq") != case.get("eq")):
            return False  # the equal tag is an option of the case: never shrunk
        if _base(evaluator) in ("spec", "real_cuts") and (c.get("m") != case.get("m") or c.get("d") != case.get("d") or c.get("e") != case.get("e") or c.get("tr") != case.get("tr")):
            return False  # options are never shrunk
        return valid(c) and fn(c) is not None

    return core.shrink(case, still)


def _spec_valid(c):
    return isinstance(c.get("s"), str) and c.get("d") and c.get("e") and len(c["e"]) == 1 and not c["d"].endswith(c["e"]) and isinstance(c.get("tr"), bool)


def _dict_valid(c):
    m, d, eq = c.get("m"), c.get("d"), c.get("eq")
    if not (isinstance(m, dict) and d and eq):
        return False
    if not safe_seps(d, eq):
        return False
    if "ge" in c:
        dv = c.get("dv")
        if not (isinstance(c["ge"], bool) and isinstance(c.get("gn"), bool) and (dv is None or isinstance(dv, (int, float)) or (isinstance(dv, str) and "\\" not in dv))):
            return False
        return all((v is None or isinstance(v, str)) and all(ch not in d and ch not in eq for ch in k) and (k or writes_eq(v, c["ge"], c["gn"])) for k, v in m.items())
    return all(isinstance(v, str) and all(ch not in d and ch not in eq for ch in k) for k, v in m.items())


def safe_seps(d, eq):
    bad = set("\\x0123456789abcdef")  # as hypothesis SafeSep of C17_dict_roundtrip
    if any(ord(ch) > 0xFF for ch in d + eq) and (set(d + eq) & set("uU")):
        return False  # hypothesis WideOk: with a separator character above U+00FF the notation \uNNNN / \UNNNNNNNN appears
    return bool(d) and bool(eq) and not (set(d) & bad) and not (set(eq) & bad) and not (set(d) & set(eq))


VALID = {
    "spec": _spec_valid,
    "real_cuts": lambda c: isinstance(c.get("s"), str) and isinstance(c.get("d"), str) and (not c.get("e") or len(c["e"]) == 1) and isinstance(c.get("tr"), bool)
    and (c.get("m") is None or isinstance(c["m"], int)),
    "plain": lambda c: isinstance(c.get("s"), str) and isinstance(c.get("d"), str) and (not c.get("e") or (len(c["e"]) == 1 and c["e"] not in c["s"])),
    "total": lambda c: isinstance(c.get("s"), str) and c.get("d") and (not c.get("e") or len(c["e"]) == 1),
    "independent": lambda c: c.get("d") and c.get("e") and len(c["e"]) == 1 and not c["d"].endswith(c["e"]) and run_len(c["e"], c["left"].split(c["d"])[-1]) % 2 == 0,
    "join": lambda c: c.get("d") and c.get("items") and all(all(ch not in c["d"] for ch in it) and (not c.get("e") or c["e"] not in it) for it in c["items"]) and (not c.get("e") or (len(c["e"]) == 1 and c["e"] not in c["d"])),
    "dict_roundtrip": _dict_valid,
    "nested": lambda c: isinstance(c.get("m"), dict) and bool(c.get("d")) and bool(c.get("eq")) and no_none_in_lists(c["m"]),
    "default": lambda c: c.get("eq") and c.get("d") and c["eq"] not in c["item"] and all(ch not in c["item"] for ch in c["d"]) and not (set(c["d"]) & set("q1" + c["eq"])),
    "ini": lambda c: isinstance(c.get("m"), dict) and c.get("eol") in ("\n", "\r\n") and ini_in_statement(c["m"]),
    "protected": lambda c: _dict_valid(c),
    "join_lol": lambda c: c.get("d") and c.get("ds") and isinstance(c.get("pe"), bool) and not (set(c["d"]) & set(c["ds"])) and c.get("lists")
    and all(isinstance(l, list) and l and all(isinstance(it, str) and not (set(it) & set(c["d"] + c["ds"])) for it in l) for l in c["lists"]),
    "fixed_list": lambda c: c.get("d") and c.get("items") and isinstance(c.get("n"), int) and c["n"] >= 0 and (c.get("dflt") is None or isinstance(c["dflt"], str))
    and all(isinstance(it, str) and not (set(it) & set(c["d"])) for it in c["items"]),
    "value_by_tag": lambda c: c.get("d") and c.get("eq") and isinstance(c.get("m"), dict) and isinstance(c.get("missing"), str) and c["missing"] not in c["m"] and c["missing"] != ""
    and not (set(c["missing"]) & set(c["d"] + c["eq"])) and (c.get("dv") is None or isinstance(c["dv"], str))
    and all(k and not (set(k) & set(c["d"] + c["eq"])) and (v is None or (isinstance(v, str) and not (set(v) & set(c["d"])))) for k, v in c["m"].items()),
    "keyvalue": lambda c: c.get("eq") and isinstance(c.get("k"), str) and isinstance(c.get("v"), str) and all(ch not in c["eq"] for ch in c["k"]),
    "ini_concat": lambda c: c.get("eq") in INI_EQS and ini_key_in_statement(c.get("k", ""), c["eq"]) and not c["k"].endswith("+")
    and all(isinstance(c.get(x), str) and "\n" not in c[x] and "\r" not in c[x] for x in ("a", "b")),
    "ini_comments": lambda c: c.get("eq") in INI_EQS and isinstance(c.get("lines"), list) and isinstance(c.get("noise"), list) and len(c["lines"]) == len(c["noise"])
    and all(isinstance(ln, str) and (not nz or _is_noise(ln)) for ln, nz in zip(c["lines"], c["noise"])),
    "ini_lines": lambda c: isinstance(c.get("lines"), list) and all(isinstance(ln, str) for ln in c["lines"]) and c.get("eq") in INI_EQS + [""],
}


def no_none_in_lists(v):
    if isinstance(v, dict):
        return all(no_none_in_lists(x) for x in v.values())
    if isinstance(v, list):
        return all(x is not None and no_none_in_lists(x) for x in v)
    return True


def replay(rp):
    c = rp["case"]
    if "evaluator" in rp:
        fn = EVALS[_base(rp["evaluator"])]
        bad = fn(c)
        print("evaluator:", rp["evaluator"])
        print("case:", c)
        print("result:", "property holds" if bad is None else bad)
        return 1 if bad else 0
    stream = rp.get("correspondence_stream", "")
    print("correspondence replay:", stream, c)
    mo = core.run_driver([rp["line"]])[0]
    fn = IMPLS.get(stream.split("/")[0])
    io_ = fn(c) if fn else None
    print("model:", mo, "impl:", io_)
    return 1 if mo != io_ else 0


IMPLS = {"ini.value": ini_value_impl, "ini.isnum": ini_isnum_impl, "ini.parse": ini_parse_impl, "ini.rt": ini_rt_impl, "ini.read": ini_read_impl,
         "esc.split": split_impl, "esc.spec": spec_py, "esc.ref": ref_py, "esc.cls": cls_py, "esc.dlist": dlist_impl, "esc.kv": kv_impl, "esc.ddict": ddict_impl,
         "esc.ser": ser_impl, "esc.unesc": unesc_impl, "esc.rt": rt_impl, "esc.rtf": rtf_impl, "esc.ddu": ddu_impl,
         "esc.dlol": dlol_impl, "esc.dfix": dfix_impl, "esc.gvt": gvt_impl}


def witness_fails(finding):
    w = finding["witness"]
    fn = EVALS[w["evaluator"]]
    return fn(w["case"]) is not None


# ---------------------------------------------------------------------------
def run(ctx):
    if ctx.proof is not None and getattr(ctx.proof, "failed", None):
        import re

        log = ctx.proof.build_log or ""
        ctx.extra["proof_step"] = {
            "modules_with_errors": sorted(set(re.findall(r"^- (N0Verif\.\S+)", log, re.M))),
            "first_errors": [l[:240] for l in log.split("\n") if l.startswith("error: N0Verif")][:6],
            "generated_text_differs_from_unchanged_code": ctx.extra.get("translated", {}).get("differs_from_unchanged_code"),
        }
    n = ctx.budget(3000, 60000)

    # ---- B1: split_with_escape, random
    rng = ctx.rng("split")
    scases = [gen_split_case(rng) for _ in range(n)]
    nt_split = lambda c: bool(c["e"]) and c["e"] in c["s"] and c["d"] in c["s"]  # noqa
    ctx.correspond("esc.split", scases, split_line, split_impl, nontrivial=nt_split)
    # empty delimiter, maxsplit with escapes
    edge = [{"s": s, "d": d, "m": m, "e": e, "tr": tr} for s in ["", "a", "\\", "a\\;b;c;d", ";\\\\", "\\;"] for d in ["", ";"]
            for m in [None, 0, 1, 2] for e in [None, "", "\\"] for tr in [True, False]]
    ctx.correspond("esc.split/edge", edge, split_line, split_impl)
    # ---- B1x: exhaustive small scope
    maxlen = 6 if ctx.tier == "quick" else 8
    ex = []
    for k in range(maxlen + 1):
        for tup in itertools.product("a;\\", repeat=k):
            s = "".join(tup)
            for tr in (True, False):
                ex.append({"s": s, "d": ";", "m": None, "e": "\\", "tr": tr})
            if k <= maxlen - 2:
                for m in (1, 2):
                    ex.append({"s": s, "d": ";", "m": m, "e": "\\", "tr": True})
    if ctx.tier == "thorough":
        for k in range(7):
            for tup in itertools.product("a:!=", repeat=k):
                s = "".join(tup)
                ex.append({"s": s, "d": "::", "m": None, "e": "!", "tr": True})
                ex.append({"s": s, "d": ":", "m": 2, "e": "!", "tr": False})
    ctx.correspond("esc.split/exhaustive", ex, split_line, split_impl, nontrivial=nt_split)
    ctx.extra["exhaustive_subspace"] = ("all texts of length <= %d over {a ; \\} x trim on/off (maxsplit None; 1 and 2 up to length %d)"
                                        % (maxlen, maxlen - 2)) + ("; all texts <= 6 over {a : ! =} with delimiters '::' and ':'" if ctx.tier == "thorough" else "")
    # ---- B2: the Python transcription of the specification = Lean's splitSpec
    spcases = [c for c in scases + ex if c["e"] and c["d"]]
    ctx.correspond("esc.spec", spcases, spec_line, spec_py, nontrivial=nt_split)
    # ---- C: split = spec, plain, total
    ctx.evaluate("spec", [c for c in spcases if _spec_valid(c)], check_spec, nontrivial=nt_split)
    # ---- the character-level reference: Lean's splitRef = its Python transcription (B), the code = the reference (C);
    #      maxsplit 1..4 exhaustively on short texts; every input is checked (finding C17-j is fixed: nothing is suppressed);
    #      the same cases go through the model stream esc.split, so the former class is covered by B as well
    rng = ctx.rng("real-cuts")
    rc = list(scases) + edge
    for k in range((5 if ctx.tier == "quick" else 7) + 1):
        for tup in itertools.product("a;\\", repeat=k):
            for m in (1, 2, 3, 4):
                rc.append({"s": "".join(tup), "d": ";", "m": m, "e": "\\", "tr": (k + m) % 2 == 0})
    for _ in range(n // 2):
        c = gen_split_case(rng)
        c["m"] = rng.choice([1, 1, 2, 3, 5])
        c["s"] = gen_text(rng, c["d"], c["e"], rng.choice([6, 10, 16, 24]))
        rc.append(c)
    ctx.correspond("esc.ref", rc, ref_line, ref_py, nontrivial=nt_split)
    ctx.correspond("esc.cls", [c for c in rc if c["e"] and c["d"]], cls_line, cls_py, nontrivial=lambda c: nt_split(c) and bool(c["m"]))
    ctx.correspond("esc.split/real-cuts", rc, split_line, split_impl, nontrivial=lambda c: nt_split(c) and bool(c["m"]))
    ctx.evaluate("real_cuts", rc, check_real_cuts, nontrivial=lambda c: nt_split(c) and bool(c["m"]))
    ctx.extra["real_cuts_in_former_class_C17j"] = sum(1 for c in rc if maxsplit_escape_class(c))
    plain = []
    rng = ctx.rng("plain")
    for _ in range(n // 2):
        c = gen_split_case(rng)
        if rng.random() < 0.15:
            c["d"] = ""
        if c["e"]:
            c["s"] = c["s"].replace(c["e"], rng.choice(["", "q"]))
        plain.append(c)
    ctx.evaluate("plain", plain, check_plain, nontrivial=lambda c: c["d"] != "" and c["d"] in c["s"])
    ctx.evaluate("total", [c for c in scases + ex if c["d"]], check_total, nontrivial=nt_split)
    # ---- C: independence of neighbours
    rng = ctx.rng("independent")
    ind = []
    while len(ind) < n // 3:
        d = rng.choice(DELIMS)
        e = rng.choice(["\\", "\\", "!", "^"])
        c = {"left": gen_text(rng, d, e), "right": gen_text(rng, d, e), "d": d, "e": e, "tr": rng.random() < 0.5}
        if VALID["independent"](c):
            ind.append(c)
    ctx.evaluate("independent", ind, check_independent, nontrivial=lambda c: c["e"] in c["left"] + c["right"])
    # ---- B3 + C: deserialize_list / join round trip
    rng = ctx.rng("dlist")
    dl = []
    for _ in range(n // 2):
        c = gen_split_case(rng)
        dl.append({"s": c["s"], "d": c["d"], "pe": rng.random() < 0.5, "e": c["e"]})
    ctx.correspond("esc.dlist", dl, dlist_line, dlist_impl)
    jn = []
    for _ in range(n // 2):
        d = rng.choice(DELIMS)
        e = rng.choice([None, None, "", "\\", "!"])
        items = [gen_item(rng, d, e, clean_of=[d] + ([e] if e else [])) for _ in range(rng.choice([1, 1, 2, 3, 4, 6]))]
        jn.append({"items": items, "d": d, "pe": rng.random() < 0.6, "e": e})
    ctx.evaluate("join", jn, check_join, nontrivial=lambda c: len(c["items"]) > 1)
    # ---- B + C: deserialize_list_of_lists, deserialize_fixed_list (compositions of deserialize_list)
    rng = ctx.rng("lol")
    lol, fx = [], []
    for _ in range(n // 2):
        d, ds = rng.choice([";", ";", "|", "::", "\n"]), rng.choice([",", ",", ":", "=>", ";"])
        if rng.random() < 0.04:
            d = ""
        if rng.random() < 0.04:
            ds = ""
        al = ["a", "b", " ", d or ";", d or ";", ds or ",", ds or ",", ds or ",", "\\", "="]
        text = "".join(rng.choice(al) for _ in range(rng.choice([0, 1, 2, 3, 5, 8, 12])))
        lol.append({"s": text, "d": d, "ds": ds, "pe": rng.random() < 0.5})
        fx.append({"s": text, "d": d, "n": rng.choice([0, 1, 2, 3, 5, 9]), "dflt": rng.choice([None, None, "", "DEF"]), "pe": rng.random() < 0.5})
    lol += [{"s": "a,,b;c", "d": ";", "ds": ",", "pe": True}, {"s": "a,,b;;c", "d": ";", "ds": ",", "pe": True}, {"s": "", "d": ";", "ds": "", "pe": False}, {"s": "", "d": ";", "ds": "", "pe": True}]
    ctx.correspond("esc.dlol", lol, dlol_line, dlol_impl, nontrivial=lambda c: c["d"] != "" and c["ds"] != "" and c["d"] in c["s"] and c["ds"] in c["s"])
    ctx.correspond("esc.dfix", fx, dfix_line, dfix_impl, nontrivial=lambda c: c["d"] != "" and c["d"] in c["s"])
    jl, fl = [], []
    for _ in range(n // 2):
        d, ds = rng.choice([(";", ","), (";", ","), ("|", ":"), ("::", "=>"), ("\n", ";"), (",", ";")])
        al = [ch for ch in ["a", "b", "x", " ", "=", "\\", "{", "!", ";", ",", ":"] if ch not in d and ch not in ds]
        def item():
            return "".join(rng.choice(al) for _ in range(rng.choice([0, 0, 1, 2, 3])))
        lists = [[item() for _ in range(rng.choice([1, 1, 2, 3, 4]))] for _ in range(rng.choice([1, 2, 2, 3, 4]))]
        jl.append({"lists": lists, "d": d, "ds": ds, "pe": rng.random() < 0.6})
        fl.append({"items": [item() for _ in range(rng.choice([1, 2, 3, 5]))], "d": d, "n": rng.choice([0, 1, 2, 3, 5, 8]), "dflt": rng.choice([None, "", "DEF"])})
    jl += [{"lists": [["a", "", "b"], ["c"]], "d": ";", "ds": ",", "pe": True}, {"lists": [["a", "", "b"], [""], ["c"]], "d": ";", "ds": ",", "pe": True},
           {"lists": [["a", "", "b"], [""], ["", ""], ["c"]], "d": ";", "ds": ",", "pe": False}]
    ctx.evaluate("join_lol", jl, check_join_lol, nontrivial=lambda c: any("" in l for l in c["lists"]) and len(c["lists"]) > 1)
    ctx.evaluate("fixed_list", fl, check_fixed_list, nontrivial=lambda c: 0 < c["n"] != len(c["items"]))
    # ---- B4: key=value and dict deserialisers
    rng = ctx.rng("kv")
    kvs, dds = [], []
    for _ in range(n // 2):
        eq = rng.choice(EQS + [""] if rng.random() < 0.1 else EQS)
        d = rng.choice(DELIMS)
        s = "".join(rng.choice(["a", "k", eq or "=", eq or "=", " ", "v", "\\", d]) for _ in range(rng.choice([0, 1, 2, 3, 5, 8])))
        dk = rng.choice([None, None, None, "", "DK"])
        dv = rng.choice([None, None, "", "DV"])
        kvs.append({"s": s, "eq": eq, "dk": dk, "dv": dv})
        items = []
        for _ in range(rng.choice([0, 1, 2, 3, 4])):
            items.append("".join(rng.choice(["a", "b", "k", eq or "=", eq or "=", " "]) for _ in range(rng.choice([0, 1, 2, 3, 5]))))
        dds.append({"s": d.join(items), "d": d if rng.random() < 0.95 else "", "eq": eq, "pe": rng.random() < 0.4, "dk": dk, "dv": dv})
    ctx.correspond("esc.kv", kvs, kv_line, kv_impl)
    ctx.correspond("esc.ddict", dds, ddict_line, ddict_impl)
    gv = []
    for c in dds:
        keys = [it.split(c["eq"], 1)[0] for it in c["s"].split(c["d"])] if c["eq"] and c["d"] else ["a"]
        gv.append(dict(c, tag=rng.choice(keys + ["a", "zz", ""])))
        gv[-1].pop("pe")
    ctx.correspond("esc.gvt", gv, gvt_line, gvt_impl, nontrivial=lambda c: c["eq"] != "" and c["d"] != "" and c["tag"] in c["s"])
    vt = []
    for _ in range(n // 4):
        d, eq = rng.choice([";", ",", "|"]), rng.choice(["=", ":", "=>"])
        m = {}
        for _ in range(rng.choice([0, 1, 2, 3, 4])):
            k = "".join(rng.choice(["a", "k", " ", "x", "_"]) for _ in range(rng.choice([1, 1, 2, 3])))
            m[k] = rng.choice([None, "", "v", "0", " ", "a" + eq + "b", "\\x3b"])
        vt.append({"m": m, "d": d, "eq": eq, "dv": rng.choice([None, None, "", "DV"]), "missing": "zz"})
    ctx.evaluate("value_by_tag", vt, check_value_by_tag, nontrivial=lambda c: len(c["m"]) > 1)
    ctx.correspond("esc.ddu", dds + [{"s": "a;b=1", "d": ";", "eq": "=", "pe": False, "dk": None, "dv": None}], ddu_line, ddu_impl,
                   nontrivial=lambda c: c["eq"] != "" and any(c["eq"] not in it for it in c["s"].split(c["d"] or ";")))
    dfl = []
    for _ in range(n // 4):
        eq = rng.choice(["=", ":", "=>"])
        d = rng.choice([";", ",", "|"])
        item = "".join(rng.choice(["a", "k", " ", "\\", "x"]) for _ in range(rng.choice([0, 1, 2, 4])))
        dfl.append({"item": item, "eq": eq, "d": d, "dv": rng.choice([None, None, "", "DV", "0", 5, 0, False, 1.5])})
    ctx.evaluate("default", dfl, check_default)
    kvc = []
    for _ in range(n // 4):
        eq = rng.choice(EQS)
        k = "".join(rng.choice(["a", "k", " ", "\\", "x", ";"]) for _ in range(rng.choice([0, 1, 2, 4])))
        v = "".join(rng.choice(["a", "v", " ", eq, eq, ";", "\\"]) for _ in range(rng.choice([0, 1, 2, 4, 7])))
        if all(ch not in eq for ch in k):
            kvc.append({"k": k, "eq": eq, "v": v, "dv": rng.choice([None, "DV"])})
    ctx.evaluate("keyvalue", kvc, check_keyvalue, nontrivial=lambda c: c["eq"] in c["v"])
    # ---- B5: serialize_dict
    rng = ctx.rng("ser")
    sers = []
    for _ in range(n // 2):
        d, eq = rng.choice(SAFE_DELIMS + ["a", "5", "\\", "€"]), rng.choice(SAFE_EQS + ["x", "é"])
        k = rng.randrange(4)
        if k == 0:
            v = gen_flat(rng, d, eq, nonascii=rng.random() < 0.2, clean=rng.random() < 0.7)
        elif k == 1:
            v = gen_scalar(rng, d, eq)
        else:
            v = gen_tree(rng, d, eq, 3, none_in_lists=True)
        ck, cv = rng.choice([(0, 0), (0, 0), (0, 0), (1, 0), (-1, 1), (0, -1), (1, 1)])
        if non_ascii_case([v, d, eq]) and rng.random() < 0.8:
            ck, cv = 0, 0  # case conversion outside ASCII is outside the model: keep `unsupported` rare
        sers.append({"v": v, "d": d, "eq": eq, "ge": rng.random() < 0.8, "gn": rng.random() < 0.8, "ck": ck, "cv": cv})
    ctx.correspond("esc.ser", sers, ser_line, ser_impl, nontrivial=lambda c: isinstance(c["v"], (dict, list)))
    # ---- B6: unescape
    rng = ctx.rng("unesc")
    un = []
    al = ["\\", "\\", "\\", "x", "u", "U", "N", "0", "1", "7", "8", "9", "a", "b", "f", "F", "n", "t", "q", "{", "}", "\n", "'", '"', " ", "é", "€", "3", "5", "c", "d"]
    for _ in range(n):
        un.append({"s": "".join(rng.choice(al) for _ in range(rng.choice([0, 1, 2, 3, 4, 6, 8, 12])))})
    for s in ["\\x9", "\\x09", "\\x3b", "\\u20ac", "\\U0001f600", "\\U00110000", "\\ud800", "\\", "\\\n", "\\777", "\\18", "\\N{DASH}", "é", "€", "\U0001f600"]:
        un.append({"s": s})
    ctx.correspond("esc.unesc", un, unesc_line, unesc_impl, nontrivial=lambda c: "\\" in c["s"])
    # ---- B7 + C: flat mapping round trip
    rng = ctx.rng("rt")
    rts = []
    for _ in range(n):
        d, eq = rng.choice(SAFE_DELIMS), rng.choice(SAFE_EQS)
        if rng.random() < 0.1:
            d = rng.choice(["a", "5", "x", "\\", "€", "="])
        rts.append({"m": gen_flat(rng, d, eq, nonascii=rng.random() < 0.3, clean=rng.random() < 0.85), "d": d, "eq": eq})
    ctx.correspond("esc.rt", rts, rt_line, rt_impl, nontrivial=lambda c: len(c["m"]) > 0)
    dr = [c for c in rts if _dict_valid(c)]
    for d in SAFE_DELIMS + ["A", "\u20ac", "F;"]:  # the whole reserved alphabet, one character at a time, every safe separator pair
        for eq in SAFE_EQS:
            if safe_seps(d, eq):
                for ch in RESERVED + list(d) + list(eq) + ["\t", "\n", "\r", "\x00", "\x7f", "a", "'"]:
                    dr.append({"m": {"k": ch, "j": "a" + ch + ch + "b"}, "d": d, "eq": eq})
    for d, eq in (("\u20ac", "="), (";", "\u00e9"), ("\U0001f600", ":"), ("\u20ac;", "=>"), ("\u00ff", "\u0100"), ("\uffff", "\U00010000"),
                  ("\U0010ffff", "=")):  # reserved characters outside ASCII, at the borders of the \\xNN / \\uNNNN / \\UNNNNNNNN notations (fix C17-e)
        for ch in list(d) + list(eq) + ["\u00e9", "\u20ac", "\U0001f600", "\\", "\u00ff", "\u0100"]:
            dr.append({"m": {"k": ch, "j": "a" + ch + ch + "\\" + ch}, "d": d, "eq": eq})
    ctx.correspond("esc.rt/wide", [c for c in dr if non_ascii_case([c["d"], c["eq"]])], rt_line, rt_impl)
    # flags: generate_empty / generate_none on and off, values '' and None, a default value (B: None or a text; C: also numbers / bools)
    rng = ctx.rng("rtf")
    rtf, drf = [], []
    for c in rts[: max(200, len(rts) // 2)]:
        m = dict(c["m"])
        for k in list(m):
            x = rng.random()
            if x < 0.25:
                m[k] = ""
            elif x < 0.45:
                m[k] = None
        ge, gn = rng.random() < 0.5, rng.random() < 0.5
        rtf.append({"m": m, "d": c["d"], "eq": c["eq"], "ge": ge, "gn": gn, "dv": rng.choice([None, None, "", "DV", "\\x41"])})
        drf.append({"m": m, "d": c["d"], "eq": c["eq"], "ge": ge, "gn": gn, "dv": rng.choice([None, None, "", "DV", 5, 0, False, 1.5])})
    for ge in (False, True):
        for gn in (False, True):
            for dv in (None, "", 5):
                drf.append({"m": {"a": "", "b": "x", "n": None}, "d": ";", "eq": "=", "ge": ge, "gn": gn, "dv": dv})
    rtf.append({"m": {"a": "", "b": "x"}, "d": ";", "eq": "=", "ge": False, "gn": True, "dv": None})
    ctx.correspond("esc.rtf", rtf, rtf_line, rtf_impl, nontrivial=lambda c: any(not writes_eq(v, c["ge"], c["gn"]) for v in c["m"].values()))
    drf = [c for c in drf if _dict_valid(c)]
    ctx.evaluate("dict_roundtrip/flags", drf, check_dict_roundtrip, nontrivial=lambda c: any(not writes_eq(v, c["ge"], c["gn"]) for v in c["m"].values()))
    # with default_value='' a mapping of texts comes back the same whatever the flags are (C17_dict_roundtrip_empty_default)
    same = [dict(c, dv="") for c in drf if all(isinstance(v, str) for v in c["m"].values())]
    ctx.evaluate("dict_roundtrip/empty-default", same, check_dict_roundtrip, nontrivial=lambda c: any(v == "" for v in c["m"].values()) and not c["ge"])
    ctx.evaluate("dict_roundtrip", dr, check_dict_roundtrip, nontrivial=lambda c: len(c["m"]) > 0)
    ctx.evaluate("protected", dr, check_protected, nontrivial=lambda c: len(c["m"]) > 0)
    # ---- C: nested mappings serialise
    rng = ctx.rng("nested")
    ns = []
    for _ in range(n // 2):
        d, eq = rng.choice(SAFE_DELIMS), rng.choice(SAFE_EQS)
        ck, cv = rng.choice([(0, 0), (0, 0), (1, 0), (-1, -1), (True, False)])
        ns.append({"m": gen_nested_mapping(rng, d, eq, 3), "d": d, "eq": eq, "ck": ck, "cv": cv})
    ns.append({"m": {"k": "", "j": {"a": 1}}, "d": ";", "eq": "="})
    ctx.evaluate("nested", ns, check_nested, nontrivial=lambda c: any(isinstance(v, (dict, list)) for v in c["m"].values()))
    # ---- C: INI round trip (no Lean model)
    rng = ctx.rng("ini")
    inis = []
    while len(inis) < n // 3:
        m = gen_ini(rng)
        if ini_in_statement(m):
            inis.append({"m": m, "eol": rng.choice(["\n", "\r\n"])})
    ctx.evaluate("ini", inis, check_ini, nontrivial=lambda c: len(c["m"]) > 0)
    # ---- B8: INI model (Model/Ini.lean): isnumber, default_parse_value, parse_ini, load_ini(save_file(m)), load_lines
    rng = ctx.rng("ini.value")
    vals = [{"s": x} for x in NUM_TEXTS + QUOTE_TEXTS + PLAIN_TEXTS] + [{"s": gen_ini_value_text(rng)} for _ in range(n)]
    ctx.correspond("ini.value", vals, ini_value_line, ini_value_impl, nontrivial=lambda c: any(ch.isdigit() for ch in c["s"]) or '"' in c["s"] or "'" in c["s"])
    import unicodedata  # noqa
    cps = set(range(0, 0x250))
    prev = False
    for cp in range(0x250, 0x110000):  # every boundary of str.isnumeric(), both sides
        cur = chr(cp).isnumeric()
        if cur != prev:
            cps.update((cp - 1, cp))
        prev = cur
    cps.update(rng.randrange(0x110000) for _ in range(ctx.budget(2000, 60000)))
    isn = [{"s": chr(cp)} for cp in sorted(cps) if not 0xD800 <= cp <= 0xDFFF]
    isn += [{"s": x["s"]} for x in vals[: n // 2]]
    ctx.correspond("ini.isnum", isn, ini_isnum_line, ini_isnum_impl, nontrivial=lambda c: len(c["s"]) > 0)
    rng = ctx.rng("ini.parse")
    pcs = [gen_ini_lines_case(rng) for _ in range(n)]
    pcs += [{"eq": "=", "lines": ls} for ls in (["// Ini file", "KEY1 =VALUE1", "# KEY2=VALUE2", "KEY3= VALUE3"], ["K=.", "K=- 5", "K=\u00b2"],
                                                ["k=a", "k+=b", "K +=c", "k+", "+=x", "+", "q+=1", "q+=2.50", "q+=\"z\""], ["a=1", "a+=2", "A=1.5", "a+= x "])]
    nt_parse = lambda c: any(not _is_noise(ln) for ln in c["lines"])  # noqa
    ctx.correspond("ini.parse", pcs, ini_parse_line, ini_parse_impl, nontrivial=nt_parse)
    rng = ctx.rng("ini.rt")
    rtc = []
    for _ in range(n // 2):
        eq = rng.choice(INI_EQS)
        rtc.append({"eq": eq, "m": gen_ini_mapping(rng, eq, wild=rng.random() < 0.3), "eol": rng.choice(["\n", "\n", "\r\n", "\r"])})
    ctx.correspond("ini.rt", rtc, ini_rt_line, ini_rt_impl, nontrivial=lambda c: len(c["m"]) > 0)
    rds = [{"s": "".join(rng.choice(["a", "b", "=", " ", "\n", "\n", "\r", "\r\n", "\x0b", "\x0c", "\x1c", "\x85", "\u2028"]) for _ in range(rng.choice([0, 1, 2, 3, 5, 8])))}
           for _ in range(n // 6)]
    ctx.correspond("ini.read", rds, ini_read_line, ini_read_impl, nontrivial=lambda c: "\n" in c["s"] or "\r" in c["s"])
    # ---- C: INI lines against the statement's reference, '+=' concatenation, comments
    ctx.evaluate("ini_lines", [c for c in pcs], check_ini_lines, nontrivial=nt_parse)
    rng = ctx.rng("ini_concat")
    ccs = []
    while len(ccs) < n // 4:
        eq = rng.choice(INI_EQS)
        c = {"k": gen_ini_key_text(rng, eq).strip().rstrip("+").strip(), "a": gen_ini_value_text(rng), "b": gen_ini_value_text(rng), "eq": eq}
        if VALID["ini_concat"](c):
            ccs.append(c)
    ctx.evaluate("ini_concat", ccs, check_ini_concat)
    rng = ctx.rng("ini_comments")
    cms = []
    for _ in range(n // 4):
        eq = rng.choice(INI_EQS)
        lines, noise = [], []
        for _ in range(rng.choice([1, 2, 3, 5, 8])):
            ln = gen_ini_line(rng, eq)
            lines.append(ln)
            noise.append(_is_noise(ln) and rng.random() < 0.8)
        cms.append({"eq": eq, "lines": lines, "noise": noise})
    ctx.evaluate("ini_comments", cms, check_ini_comments, nontrivial=lambda c: any(c["noise"]) and not all(c["noise"]))
    ctx.extra["assumptions"] = [
        "the model follows the code with fix patches C17-a ... C17-j applied (C17-j: the raw remainder is split once more before every join)",
        "escape character: None/'' or a single character (a longer escape_character is outside the model)",
        "unescape = latin-1/backslashreplace encoding followed by CPython 3.12's unicode_escape decoder, hand-modelled (\\N{...} and lone surrogates: unsupported); validated by stream esc.unesc",
        "str.split(sep, maxsplit) is hand-modelled (splitAux) and validated by the esc.split streams with escape None",
        "str.upper()/lower() modelled for ASCII only (unsupported otherwise); str() of int/bool/float as in Val",
        "dict insertion order (dict(pairs)) is modelled by an association list",
        "INI: int() / float() are modelled as the grammars [+-]digits / [+-]digits.digits on the texts isnumber lets through; round(float(x), 7) and repr only for "
        "decimals with <= 15 significant digits, <= 7 after the point, zero or >= 0.0001 (else unsupported); values that isnumber accepts and that contain a "
        "character above U+007F are unsupported; str.isnumeric() above U+007F is a table (Unicode 15.0); keys outside ASCII are unsupported (str.upper)",
        "INI: the file layer (encoding, utf-8-sig BOM, newline translation of EOL) is not modelled: readLines is universal-newline reading of the text "
        "save_file is given; stream ini.rt goes through a real file with EOL '\\n', '\\r\\n', '\\r'",
        "INI: default parse_key / parse_value / comment_tags / default_value / concatenate_sign only; equal_tag one string",
        "the INI reference of evaluators ini / ini_lines / ini_concat is a Python reading of the statement (trusted)",
    ]
    ctx.extra["trusted_base"] = ["Python transcription of splitSpec in harness/props/c17.py (tied to Lean's splitSpec by stream esc.spec)"]
