"""
Shared machinery of the n0struct verification checks.

A check for property Cnn does (DESIGN.md section 2):
  A. proof obligations  : translator -> lake build of Props/Cnn -> axiom audit
  B. correspondence     : Lean model (native driver, line protocol) vs /repo
  C. property evaluation: transcription of the property run on the real code
and then decides (exit 0 / VIOLATION / KNOWN-FINDING / exit 2).
"""
import hashlib
import json
import os
import random
import re
import subprocess
import sys
import time
import traceback

VERIF = os.path.dirname(os.path.dirname(os.path.abspath(__file__)))
# VERIF_OUT redirects evidence/ and replays/ (used when a check is pointed at a scratch checkout)
OUT = os.environ.get("VERIF_OUT") or VERIF
LEAN_DIR = os.path.join(VERIF, "lean")
REPO = os.environ.get("VERIF_REPO", "/repo")
DRIVER = os.path.join(LEAN_DIR, ".lake", "build", "bin", "driver")
ALLOWED_AXIOMS = {"propext", "Classical.choice", "Quot.sound"}
FORBIDDEN = re.compile(
    r"\bsorry\b|\badmit\b|^\s*axiom\s|native_decide|bv_decide|implemented_by|\bunsafe\s|maxHeartbeats\s+0\b",
    re.M,
)


_LITS = {}


def source_literals(repo=None, maxlen=24):
    """string constants of the library's own source (the fuzzing "dictionary"): values that have a special
    role somewhere in the code (sentinels, markers, keywords) are the inputs a generator of ordinary data never
    produces.  Harvested from the checkout under test on every run, so a newly introduced marker is picked up."""
    import ast

    repo = repo or REPO
    if repo in _LITS:
        return _LITS[repo]
    out = set()
    d = os.path.join(repo, "n0struct")
    for f in sorted(os.listdir(d)) if os.path.isdir(d) else []:
        if not f.endswith(".py"):
            continue
        try:
            tree = ast.parse(open(os.path.join(d, f), encoding="utf-8").read())
        except Exception:
            continue
        doc = set()
        for n in ast.walk(tree):
            body = getattr(n, "body", None)
            if isinstance(body, list) and body and isinstance(body[0], ast.Expr) and isinstance(getattr(body[0], "value", None), ast.Constant):
                doc.add(id(body[0].value))
        for n in ast.walk(tree):
            if isinstance(n, ast.Constant) and isinstance(n.value, str) and id(n) not in doc and 1 <= len(n.value) <= maxlen and "\n" not in n.value:
                out.add(n.value)
    _LITS[repo] = sorted(out)
    return _LITS[repo]


_CMP = {}


def compared_literals(repo=None, maxlen=24):
    """the part of the dictionary the code *compares data against*: string constants that are an operand of a
    comparison (==, !=, in, is), a default of a parameter, or the fallback argument of a .get()/.pop()/getattr
    call -- the places where a marker value can be confused with user data."""
    import ast

    repo = repo or REPO
    if repo in _CMP:
        return _CMP[repo]
    out = set()

    def consts(n):
        for m in ast.walk(n):
            if isinstance(m, ast.Constant) and isinstance(m.value, str) and 1 <= len(m.value) <= maxlen and "\n" not in m.value:
                yield m.value

    d = os.path.join(repo, "n0struct")
    for f in sorted(os.listdir(d)) if os.path.isdir(d) else []:
        if not f.endswith(".py"):
            continue
        try:
            tree = ast.parse(open(os.path.join(d, f), encoding="utf-8").read())
        except Exception:
            continue
        for n in ast.walk(tree):
            if isinstance(n, ast.Compare):
                for side in [n.left] + list(n.comparators):
                    if isinstance(side, (ast.Constant, ast.Tuple, ast.List, ast.Set)):
                        out.update(consts(side))
            elif isinstance(n, (ast.FunctionDef, ast.AsyncFunctionDef, ast.Lambda)):
                for dflt in list(n.args.defaults) + [x for x in n.args.kw_defaults if x is not None]:
                    if isinstance(dflt, ast.Constant):
                        out.update(consts(dflt))
            elif isinstance(n, ast.Call) and len(n.args) >= 2 and isinstance(n.args[-1], ast.Constant):
                fn = n.func
                name = fn.attr if isinstance(fn, ast.Attribute) else getattr(fn, "id", "")
                if name in ("get", "pop", "getattr", "first", "setdefault"):
                    out.update(consts(n.args[-1]))
    _CMP[repo] = sorted(out)
    return _CMP[repo]


class Infra(Exception):
    """infrastructure failure: exit 2, never a VIOLATION"""


# ----------------------------------------------------------------------------
# protocol encoding
# ----------------------------------------------------------------------------
def enc_str(s):
    if isinstance(s, (bytes, bytearray)):
        s = s.decode("latin-1")
    if s == "":
        return "_"
    return ".".join("%x" % ord(c) for c in s)


def dec_str(tok):
    if tok == "_":
        return ""
    return "".join(chr(int(h, 16)) for h in tok.split("."))


def enc_strs(xs):
    return " ".join(enc_str(x) for x in xs)


def dec_counted_strs(toks):
    """'<n> s1 .. sn' -> (list, rest)"""
    n = int(toks[0])
    return [dec_str(t) for t in toks[1 : 1 + n]], toks[1 + n :]


def enc_val(v):
    """prefix encoding of a tree (see lean/N0Verif/Val.lean `Val`)"""
    from n0struct import n0dict, n0list  # noqa

    if v is None:
        return "N"
    if v is True:
        return "T"
    if v is False:
        return "F"
    if isinstance(v, int):
        return "I%d" % v
    if isinstance(v, float):
        return "R" + enc_str(repr(v))
    if isinstance(v, str):
        return "S" + enc_str(v)
    if isinstance(v, list):
        c = "n" if isinstance(v, n0list) else "p"
        return " ".join(["L%s%d" % (c, len(v))] + [enc_val(x) for x in v])
    if isinstance(v, dict):
        c = "n" if isinstance(v, n0dict) else "p"
        out = ["D%s%d" % (c, len(v))]
        for k, x in v.items():
            if not isinstance(k, str):
                raise ValueError("non-str key")
            out.append(enc_str(k))
            out.append(enc_val(x))
        return " ".join(out)
    raise ValueError("unsupported value %r" % (type(v),))


def dec_val(toks, pos=0, plain=False):
    """decode to plain python (class tags dropped unless plain=False -> returns tagged tuples)"""
    t = toks[pos]
    k = t[0]
    if k == "N":
        return None, pos + 1
    if k == "T":
        return True, pos + 1
    if k == "F":
        return False, pos + 1
    if k == "I":
        return int(t[1:]), pos + 1
    if k == "R":
        return float(dec_str(t[1:])), pos + 1
    if k == "S":
        return dec_str(t[1:]), pos + 1
    if k == "L":
        n = int(t[2:])
        pos += 1
        out = []
        for _ in range(n):
            x, pos = dec_val(toks, pos, plain)
            out.append(x)
        return (out if plain else ("L", t[1], out)), pos
    if k == "D":
        n = int(t[2:])
        pos += 1
        out = []
        for _ in range(n):
            key = dec_str(toks[pos])
            x, pos = dec_val(toks, pos + 1, plain)
            out.append((key, x))
        return (dict(out) if plain else ("D", t[1], out)), pos
    raise ValueError("bad value token %r" % t)


def canon_val(v):
    """canonical text of a python tree including class tags and key order (what B compares)"""
    return enc_val(v)


# ----------------------------------------------------------------------------
# Lean side
# ----------------------------------------------------------------------------
def sh(cmd, cwd=None, timeout=3600, env=None):
    p = subprocess.run(cmd, cwd=cwd, stdout=subprocess.PIPE, stderr=subprocess.STDOUT, text=True, timeout=timeout, env=env)
    return p.returncode, p.stdout


def strip_lean_comments(src):
    src = re.sub(r"/-.*?-/", "", src, flags=re.S)
    src = re.sub(r"--.*", "", src)
    return src


def lean_theorems(props_file):
    """names of theorems declared in a Props file (fully qualified)"""
    src = strip_lean_comments(open(props_file, encoding="utf-8").read())
    ns = re.search(r"^namespace\s+(\S+)", src, re.M)
    ns = ns.group(1) + "." if ns else ""
    return [ns + m.group(1) for m in re.finditer(r"^\s*theorem\s+([A-Za-z0-9_'.]+)", src, re.M)]


def lean_stmts(props_file):
    """`def X_stmt : Prop` declarations (full-strength statements kept visible)"""
    src = strip_lean_comments(open(props_file, encoding="utf-8").read())
    return [m.group(1) for m in re.finditer(r"^\s*def\s+([A-Za-z0-9_']+_stmt)\b", src, re.M)]


def lean_imports_closure(mod):
    """all library modules (N0Verif.*) a module imports, transitively, as file paths"""
    seen, todo = [], [mod]
    while todo:
        m = todo.pop()
        if m in seen:
            continue
        seen.append(m)
        path = os.path.join(LEAN_DIR, *m.split(".")) + ".lean"
        if not os.path.exists(path):
            continue
        for mm in re.finditer(r"^import\s+(N0Verif\.\S+)", open(path, encoding="utf-8").read(), re.M):
            todo.append(mm.group(1))
    return seen


class ProofResult:
    def __init__(self):
        self.obligations = []
        self.discharged = []
        self.failed = []  # (theorem or target, reason)
        self.axioms = {}
        self.stated_not_proved = []
        self.build_log = ""
        self.checker_cmd = ""
        self.leanchecker = None


def run_proofs(prop, tier, extra_targets=()):
    """A: build the property's theorems and audit their axioms."""
    res = ProofResult()
    mod = "N0Verif.Props.%s" % prop
    props_file = os.path.join(LEAN_DIR, "N0Verif", "Props", prop + ".lean")
    if not os.path.exists(props_file):
        raise Infra("no Props file for %s" % prop)
    res.obligations = lean_theorems(props_file)
    res.stated_not_proved = [s for s in lean_stmts(props_file) if not any(t.endswith("." + s[:-5]) for t in res.obligations)]
    targets = [mod, "driver"] + list(extra_targets)
    res.checker_cmd = "cd lean && lake build %s && lake env lean <audit: #print axioms for each theorem>" % " ".join(targets)
    rc, out = sh(["lake", "build"] + targets, cwd=LEAN_DIR)
    res.build_log = out
    if rc != 0:
        if "error:" not in out and "error" not in out.lower():
            raise Infra("lake build failed without a Lean error:\n" + out[-2000:])
        # which theorems are affected is not known precisely: all of the file
        res.failed = [(t, "build failed") for t in res.obligations]
        res.build_error = out
        return res
    # forbidden tokens in every imported library source
    for m in lean_imports_closure(mod):
        path = os.path.join(LEAN_DIR, *m.split(".")) + ".lean"
        if os.path.exists(path):
            src = strip_lean_comments(open(path, encoding="utf-8").read())
            bad = FORBIDDEN.search(src)
            if bad:
                res.failed.append((m, "forbidden token %r" % bad.group(0)))
    # axiom audit
    audit = "import %s\n" % mod + "".join("#print axioms %s\n" % t for t in res.obligations)
    audit_dir = os.path.join(LEAN_DIR, ".lake", "audit")
    os.makedirs(audit_dir, exist_ok=True)
    audit_file = os.path.join(audit_dir, "Audit_%s.lean" % prop)
    with open(audit_file, "w") as f:
        f.write(audit)
    rc, out = sh(["lake", "env", "lean", audit_file], cwd=LEAN_DIR)
    if rc != 0:
        res.failed += [(t, "audit failed") for t in res.obligations]
        res.build_log += out
        return res
    # parse "'N0.C13.x' depends on axioms: [a, b]" / "does not depend on any axioms"
    out1 = re.sub(r"\s+", " ", out)
    for t in res.obligations:
        m = re.search(r"'%s' (does not depend on any axioms|depends on axioms: \[([^\]]*)\])" % re.escape(t), out1)
        if not m:
            res.failed.append((t, "no audit line"))
            continue
        axs = [a.strip() for a in (m.group(2) or "").split(",") if a.strip()]
        res.axioms[t] = axs
        bad = [a for a in axs if a not in ALLOWED_AXIOMS]
        if bad:
            res.failed.append((t, "axioms %s" % bad))
    failed_names = {f[0] for f in res.failed}
    res.discharged = [t for t in res.obligations if t not in failed_names]
    if tier == "thorough" and not res.failed:
        mods = [m for m in lean_imports_closure(mod)]
        rc, out = sh(["lake", "env", "leanchecker"] + mods, cwd=LEAN_DIR, timeout=3600)
        res.leanchecker = {"rc": rc, "modules": len(mods), "tail": out[-300:]}
        if rc != 0:
            res.failed.append(("leanchecker", out[-500:]))
            res.discharged = []
    return res


def run_driver(lines):
    """run the native model driver on protocol lines; returns list of output lines"""
    if not os.path.exists(DRIVER):
        rc, out = sh(["lake", "build", "driver"], cwd=LEAN_DIR)
        if rc != 0:
            raise Infra("cannot build driver:\n" + out[-2000:])
    if not lines:
        return []
    data = "\n".join(lines) + "\n"
    p = subprocess.run([DRIVER], input=data.encode("ascii"), stdout=subprocess.PIPE, stderr=subprocess.PIPE, timeout=3600)
    if p.returncode != 0:
        raise Infra("driver failed rc=%s: %s" % (p.returncode, p.stderr.decode()[-1000:]))
    out = p.stdout.decode("ascii").split("\n")
    if out and out[-1] == "":
        out.pop()
    if len(out) != len(lines):
        raise Infra("driver answered %d lines for %d requests" % (len(out), len(lines)))
    return out


# ----------------------------------------------------------------------------
# implementation side
# ----------------------------------------------------------------------------
_imported = False


def import_repo():
    """import the package from REPO's working tree, in-process, quietly"""
    global _imported
    if _imported:
        return
    if REPO not in sys.path:
        sys.path.insert(0, REPO)
    try:
        from loguru import logger

        logger.remove()
    except Exception:
        pass
    import n0struct  # noqa

    got = os.path.dirname(os.path.dirname(os.path.abspath(n0struct.__file__)))
    if os.path.realpath(got) != os.path.realpath(REPO):
        raise Infra("n0struct imported from %s, expected %s" % (got, REPO))
    try:
        from loguru import logger

        logger.remove()
    except Exception:
        pass
    _imported = True


def exc_class(e):
    return type(e).__name__


def call(fn, *a, **k):
    """run implementation code: ('ok', value) or ('err', class name)"""
    try:
        return ("ok", fn(*a, **k))
    except RecursionError:
        return ("err", "RecursionError")
    except Exception as e:  # noqa
        return ("err", exc_class(e))


# ----------------------------------------------------------------------------
# shrinking (generic over JSON-like cases)
# ----------------------------------------------------------------------------
def _shrink_candidates(x):
    if isinstance(x, str):
        if len(x) > 0:
            yield ""
            for i in range(len(x)):
                yield x[:i] + x[i + 1 :]
            for i, c in enumerate(x):
                if c not in "a":
                    if c.isalpha():
                        yield x[:i] + "a" + x[i + 1 :]
    elif isinstance(x, bool) or x is None:
        return
    elif isinstance(x, int):
        if x != 0:
            yield 0
            yield x // 2
    elif isinstance(x, list):
        for i in range(len(x)):
            yield x[:i] + x[i + 1 :]
        for i in range(len(x)):
            for c in _shrink_candidates(x[i]):
                yield x[:i] + [c] + x[i + 1 :]
    elif isinstance(x, dict):
        for k in list(x):
            # a path is tied to its tree: never shrink path texts, positions or modes on their own
            if not k.startswith("_") and k not in ("xp", "xpath", "expr", "pos", "mode", "base", "steps", "op"):
                for c in _shrink_candidates(x[k]):
                    y = dict(x)
                    y[k] = c
                    yield y


def shrink(case, still_fails, budget=400):
    """greedy shrinking; `still_fails(case)` must be robust (exceptions = not failing)"""
    cur = case
    improved = True
    while improved and budget > 0:
        improved = False
        for cand in _shrink_candidates(cur):
            budget -= 1
            if budget <= 0:
                break
            try:
                if still_fails(cand):
                    cur = cand
                    improved = True
                    break
            except Exception:
                continue
    return cur


# ----------------------------------------------------------------------------
# the check context
# ----------------------------------------------------------------------------
class Ctx:
    def __init__(self, prop, tier, seed):
        self.prop = prop
        self.tier = tier
        self.seed = seed
        self.t0 = time.time()
        self.streams = {}  # name -> stats
        self.disagreements = []  # (stream, case, model, impl)
        self.failures = []  # (evaluator, case, detail)
        self.known_seen = {}  # finding id -> count
        self.samples = []
        self.nontrivial = set()
        self.evaluations = 0
        self.unsupported = 0
        self.notes = []
        self.proof = None
        self.extra = {}
        self.tie_broken = []  # translator / cross-check could not tie the model to the changed source
        try:
            from harness import anchors

            self.anchors_changed = anchors.changed(REPO, prop)
        except Exception as e:  # never let the fingerprinting break a check
            self.anchors_changed = []
            self.notes.append("anchors: %r" % (e,))

    def rng(self, stream):
        return random.Random("%s:%s:%s" % (self.seed, self.prop, stream))

    def budget(self, quick, thorough):
        if self.tier == "thorough":
            return thorough
        if self.anchors_changed:
            # an anchored function changed since the model was validated: look harder (not an alarm)
            return min(thorough, 6 * quick)
        # the quick tier runs in seconds on this machine: triple the nominal case counts
        return min(thorough, 3 * quick)

    def note_case(self, case, nontrivial=True):
        self.evaluations += 1
        if nontrivial:
            self.nontrivial.add(hashlib.md5(json.dumps(case, sort_keys=True, default=str).encode()).hexdigest())
        if len(self.samples) < 6 and (self.evaluations % 997 == 1):
            self.samples.append(case)

    # --- B ---
    def correspond(self, stream, cases, line_of, impl_of, in_known=None, nontrivial=None):
        """cases: JSON-like; line_of(case)->protocol line; impl_of(case)->canonical output line.
        Compares the model's answer with the implementation's."""
        st = self.streams.setdefault(stream, {"cases": 0, "disagree": 0, "unsupported": 0, "errs": {}, "known": 0})
        if (self.failures or self.disagreements) and time.time() - self.t0 > (240 if self.tier == "quick" else 1500):
            st["skipped_after_failures"] = st.get("skipped_after_failures", 0) + len(cases)  # see evaluate()
            return
        lines = [line_of(c) for c in cases]
        outs = run_driver(lines)
        for c, line, mo in zip(cases, lines, outs):
            if st["disagree"] >= 300:
                st["stopped_after_disagreements"] = True
                break
            st["cases"] += 1
            io = impl_of(c)
            self.note_case({"stream": stream, "case": c}, nontrivial(c) if nontrivial else True)
            if io.startswith("err "):
                cls = io.split()[1]
                st["errs"][cls] = st["errs"].get(cls, 0) + 1
            if mo == "unsupported" or mo == "err Unsupported":
                st["unsupported"] += 1
                self.unsupported += 1
                continue
            if mo == "bad-op":
                raise Infra("driver rejected line of stream %s: %s" % (stream, line[:200]))
            if mo != io:
                fid = in_known(c) if in_known else None
                if fid:
                    st["known"] += 1
                    self.known_seen[fid] = self.known_seen.get(fid, 0) + 1
                    continue
                st["disagree"] += 1
                if len(self.disagreements) < 50:
                    self.disagreements.append({"stream": stream, "case": c, "line": line, "model": mo, "impl": io})

    # --- C ---
    def evaluate(self, evaluator, cases, prop_fn, in_known=None, nontrivial=None):
        """prop_fn(case) -> None when the property holds on the implementation,
        otherwise a JSON-like description of what failed."""
        st = self.streams.setdefault("eval:" + evaluator, {"cases": 0, "failed": 0, "known": 0})
        if self.failures and time.time() - self.t0 > (240 if self.tier == "quick" else 1500):
            # failing inputs are already in hand and the run is long (broken code can make every case expensive):
            # the verdict cannot change any more, skip what is left
            st["skipped_after_failures"] = st.get("skipped_after_failures", 0) + len(cases)
            return
        for c in cases:
            if st["failed"] >= 60:
                st["stopped_after_failures"] = True  # 60 unexplained failures of this evaluator: enough to report
                break
            st["cases"] += 1
            self.note_case({"eval": evaluator, "case": c}, nontrivial(c) if nontrivial else True)
            try:
                bad = prop_fn(c)
            except Infra:
                raise
            except Exception as e:  # evaluator itself crashed: treat as failure description
                bad = {"evaluator_exception": repr(e), "trace": traceback.format_exc()[-800:]}
            if bad is None:
                continue
            fid = in_known(c, bad) if in_known else None
            if fid:
                st["known"] += 1
                self.known_seen[fid] = self.known_seen.get(fid, 0) + 1
                continue
            st["failed"] += 1
            if len(self.failures) < 50:
                self.failures.append({"evaluator": evaluator, "case": c, "detail": bad})


# ----------------------------------------------------------------------------
# known findings
# ----------------------------------------------------------------------------
def load_known(prop):
    path = os.path.join(VERIF, "known_findings", prop + ".json")
    if not os.path.exists(path):
        return [], []
    data = json.load(open(path))
    open_ = [f for f in data.get("findings", []) if f["property"] == prop]
    fixed = [f for f in data.get("fixed", []) if f["property"] == prop]
    return open_, fixed


# ----------------------------------------------------------------------------
# decision, evidence, replay
# ----------------------------------------------------------------------------
def write_replay(prop, kind, payload):
    d = os.path.join(OUT, "replays")
    os.makedirs(d, exist_ok=True)
    h = hashlib.md5(json.dumps(payload, sort_keys=True, default=str).encode()).hexdigest()[:10]
    path = os.path.join(d, "%s-%s-%s.json" % (prop, kind, h))
    payload = dict(payload)
    payload["property"] = prop
    payload["kind"] = kind
    payload["reproduce"] = "./check %s --replay %s" % (prop, os.path.relpath(path, OUT))
    with open(path, "w") as f:
        json.dump(payload, f, indent=1, default=str)
    return os.path.relpath(path, OUT)


def write_evidence(ctx, violations, level="proof"):
    pr = ctx.proof
    cov = {
        "obligations": len(pr.obligations) if pr else 0,
        "discharged": len(pr.discharged) if pr else 0,
        "checker_cmd": pr.checker_cmd if pr else "",
        "trusted_base": [
            "Lean 4.33.0 kernel",
            "axioms: " + (", ".join(sorted({a for axs in pr.axioms.values() for a in axs})) if pr and pr.axioms else "none"),
            "reading of the property as the statements in lean/N0Verif/Props/%s.lean" % ctx.prop,
            "correspondence harness harness/props/%s.py (generators, canonicalisation)" % ctx.prop.lower(),
        ]
        + ctx.extra.get("trusted_base", []),
        "theorems": {t: pr.axioms.get(t, None) for t in pr.obligations} if pr else {},
        "stated_not_proved": pr.stated_not_proved if pr else [],
        "proof_failures": [list(f) for f in pr.failed] if pr else [],
        "leanchecker": pr.leanchecker if pr else None,
        "evaluations": ctx.evaluations,
        "distinct_nontrivial": len(ctx.nontrivial),
        "rule": ctx.extra.get("rule", "cases are generated from VERIF_SEED per stream; a case is counted when it is distinct (hash of its JSON form) and marked non-trivial by its stream's predicate"),
        "samples": ctx.samples[:6] or [{"note": "no sampled case"}],
        "streams": ctx.streams,
        "unsupported": ctx.unsupported,
        "disagreements": ctx.disagreements[:5],
        "disagreements_checked": sum(s.get("cases", 0) for n, s in ctx.streams.items() if not n.startswith("eval:")),
        "programs": sum(s.get("cases", 0) for n, s in ctx.streams.items() if not n.startswith("eval:")),
        "property_failures": ctx.failures[:5],
        "known_findings_seen": ctx.known_seen,
        "anchors_changed": ctx.anchors_changed,
        "tie_broken": ctx.tie_broken,
        "notes": ctx.notes,
    }
    for k, v in ctx.extra.items():
        if k not in ("trusted_base", "rule", "assumptions"):
            cov[k] = v
    ev = {
        "property_id": ctx.prop,
        "tier": ctx.tier,
        "seed": ctx.seed,
        "level": level,
        "coverage": cov,
        "assumptions": ctx.extra.get("assumptions", []),
        "wall_s": round(time.time() - ctx.t0, 2),
        "violations": violations,
    }
    d = os.path.join(OUT, "evidence")
    os.makedirs(d, exist_ok=True)
    with open(os.path.join(d, ctx.prop + ".json"), "w") as f:
        json.dump(ev, f, indent=1, default=str)


def decide(ctx, mod):
    """print KNOWN-FINDING / VIOLATION lines, write evidence, return exit code"""
    prop = ctx.prop
    open_findings, _fixed = load_known(prop)
    violations = 0
    out = []
    # known findings: replay each listed witness; print the line if it still fails
    for f in open_findings:
        still = True
        if hasattr(mod, "witness_fails"):
            try:
                still = bool(mod.witness_fails(f))
            except Exception as e:
                still = True
                ctx.notes.append("witness %s raised %r" % (f["id"], e))
        if still:
            out.append("KNOWN-FINDING: property=%s %s: %s" % (prop, f["id"], f["what_fails"]))
        else:
            ctx.notes.append("known finding %s: witness no longer fails" % f["id"])
    # C failures
    if ctx.failures:
        first = ctx.failures[0]
        case = first["case"]
        if hasattr(mod, "shrink_failure"):
            try:
                case = mod.shrink_failure(first["evaluator"], case)
            except Exception as e:
                ctx.notes.append("shrink raised %r" % (e,))
        path = write_replay(prop, "fail", {"evaluator": first["evaluator"], "case": case, "unshrunk": first["case"], "detail": first["detail"], "more": len(ctx.failures) - 1})
        out.append("VIOLATION property=%s replay=%s" % (prop, path))
        violations += len(ctx.failures)
    elif ctx.disagreements:
        first = ctx.disagreements[0]
        path = write_replay(prop, "corr", {"correspondence_stream": first["stream"], "case": first["case"], "line": first["line"], "model": first["model"], "impl": first["impl"], "note": "model and implementation disagree; no input was found on which the property itself fails", "more": len(ctx.disagreements) - 1})
        out.append("VIOLATION property=%s replay=%s no-failing-input-found" % (prop, path))
        violations += len(ctx.disagreements)
    elif ctx.tie_broken:
        path = write_replay(prop, "tie", {"tie_no_longer_checks": ctx.tie_broken, "note": "the translator / cross-check that ties the model to the source does not apply to the changed code; the failing-input search on the implementation found nothing"})
        out.append("VIOLATION property=%s replay=%s no-failing-input-found" % (prop, path))
        violations += 1
    elif ctx.proof and ctx.proof.failed:
        path = write_replay(prop, "proof", {"theorems_not_checked": [list(f) for f in ctx.proof.failed][:20], "log_tail": ctx.proof.build_log[-3000:], "note": "a proof obligation no longer checks; the failing-input search on the implementation found nothing"})
        out.append("VIOLATION property=%s replay=%s no-failing-input-found" % (prop, path))
        violations += 1
    write_evidence(ctx, violations, level=getattr(mod, "LEVEL", "proof"))
    for line in out:
        print(line)
    sys.stdout.flush()
    return 1 if violations else 0
