#!/venv/bin/python
"""harness/seedsweep.py [--jobs N] [--seeds a,b] [--tier quick] [ids...]
Runs every stored seeded change (seeded/<id>/) through harness/seedtest.py against the CURRENT /repo head and
the CURRENT checks (each in its own scratch copy), and refreshes the 'now' part of seeded/<id>/meta.json:
applies_to_repo_head, tests, demo results, caught_now, caught_by.  'first_run' is never rewritten."""
import concurrent.futures as cf
import json
import os
import subprocess
import sys

HERE = os.path.dirname(os.path.dirname(os.path.abspath(__file__)))


def one(sid, seeds, tier):
    d = os.path.join(HERE, "seeded", sid)
    meta = json.load(open(os.path.join(d, "meta.json")))
    p = subprocess.run([os.path.join(HERE, "harness", "seedtest.py"), meta["property"], d, "--seeds", seeds, "--tier", tier],
                       stdout=subprocess.PIPE, stderr=subprocess.PIPE, text=True)
    try:
        r = json.loads(p.stdout[p.stdout.index("{"):])
    except Exception:
        return sid, None, (p.stdout + p.stderr)[-400:]
    return sid, r, None


def main():
    args = sys.argv[1:]
    jobs = int(args[args.index("--jobs") + 1]) if "--jobs" in args else 5
    seeds = args[args.index("--seeds") + 1] if "--seeds" in args else "0"
    tier = args[args.index("--tier") + 1] if "--tier" in args else "quick"
    skip = set()
    for f in ("--jobs", "--seeds", "--tier"):
        if f in args:
            skip |= {args.index(f), args.index(f) + 1}
    ids = [a for i, a in enumerate(args) if i not in skip] or sorted(os.listdir(os.path.join(HERE, "seeded")))
    head = subprocess.run(["git", "-C", "/repo", "rev-parse", "--short", "HEAD"], stdout=subprocess.PIPE, text=True).stdout.strip()
    missed = []
    with cf.ThreadPoolExecutor(jobs) as ex:
        for sid, r, err in ex.map(lambda s: one(s, seeds, tier), ids):
            mp = os.path.join(HERE, "seeded", sid, "meta.json")
            meta = json.load(open(mp))
            if r is None:
                print("%-8s INFRA %s" % (sid, err))
                continue
            by = sorted({(c.get("kind"), c.get("evaluator")) for c in r.get("check", []) if c.get("violation")}, key=str)
            ok = r.get("applies") and "31 passed" in (r.get("tests") or "") and r.get("demo_clean_rc") == 0 and r.get("demo_patched_rc") == 1
            meta["now"] = {
                "repo_head": head,
                "applies_to_repo_head": bool(r.get("applies")),
                "existing_tests": r.get("tests"),
                "demo_on_unchanged": r.get("demo_clean_rc"),
                "demo_with_change": r.get("demo_patched_rc"),
                "still_a_valid_seeded_change": bool(ok),
                "seeds": seeds,
                "tier": tier,
            }
            meta["caught_now"] = bool(r.get("caught")) if r.get("applies") else None
            if r.get("caught"):
                meta["caught_by"] = str([(1, k, e) for k, e in by])
            json.dump(meta, open(mp, "w"), indent=1)
            open(mp, "a").write("\n")
            state = "CAUGHT" if r.get("caught") else ("n/a (does not apply to head)" if not r.get("applies") else "MISSED")
            print("%-8s %-7s valid=%s %s" % (sid, state, bool(ok), by), flush=True)
            if r.get("applies") and not r.get("caught"):
                missed.append(sid)
    print("missed:", missed)


if __name__ == "__main__":
    main()
