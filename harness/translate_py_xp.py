"""
Translator for the two pure primitives of the xpath engine (C01-C06): regenerates
lean/N0Verif/Gen/XPathPrim.lean from

  * `n0eval`            (n0struct/n0struct_utils.py)       -> `Gen.XPathPrim.n0eval`
  * `split_name_index`  (n0struct/n0struct_utils_find.py)  -> `Gen.XPathPrim.splitNameIndex`

on every run of `./check C01`.  `Props/C01.lean` (block at its end, proofs in `Proofs/XPathPrimGenEq.lean`) proves the
generated definitions equal to the hand-written model `Model/XPath.lean` (`XPath.n0eval`, `XPath.splitNameIndex`).

It extends the Python-subset translator of harness/translate_py_csv.py (class `FnTranslator`; see notes/C13-gen.md for
the base subset) by what the two functions need (notes/C01-gen.md has the precise list and the assumptions):

  * a nested function without free variables (`my_split`) as a separate definition, called as an effect;
  * list comprehensions with one generator (optionally `enumerate`) and filters: `List.filterMap`/`List.map`;
  * `str.split(d)`, `str.split(d, 1)`, `a, b = <list>` (raises `ValueError` unless two items), `lst.extend(e)`,
    `str.lower()`, two-bound slices, homogeneous tuple displays of literals (an immutable list), tuples as values;
  * `for` loops whose body `return`s or `break`s, `for ... else`, names first bound in the body that a `break` exports,
    the loop target read after the loop: the step returns `Ctl exit State` (`exit` = returned value / names exported by
    `break`, `next` = state for the next iteration), the loop is `foldC`;
  * `try: <straight code> except Exception: <block>`; `int(x)`, `float(x)` of a str as effects (`pyIntE`, `pyFloatE`);
  * `None` (type `none`, `x is None` decided statically per path), annotated assignment;
  * an `if` whose branches only assign is *joined* (`let x := if c then .. else ..`) instead of duplicating the
    continuation, when the assigned names have the same type on both paths;
  * results of union type are injected into the model's inductive types at `return` (`EvalRes`, `Idx`, `CondVal`);
  * an external callable named in the specialisation (`urllib.parse.unquote`) is a parameter-like trusted definition
    (`unquoteE`); the import it comes from is checked.
"""
import ast
import os

try:
    from harness import translate_py_csv as base
except ImportError:  # run as a script from the harness directory
    import sys

    sys.path.insert(0, os.path.dirname(os.path.dirname(os.path.abspath(__file__))))
    from harness import translate_py_csv as base
from harness.translate_py_csv import B, TranslateError, NeedsControlFlow, indent, is_list, t_list, type_name as base_type_name, unify as base_unify, lean_str, type_rank

HERE = os.path.dirname(os.path.dirname(os.path.abspath(__file__)))
OUT = os.path.join(HERE, "lean", "N0Verif", "Gen", "XPathPrim.lean")
BASELINE = os.path.join(HERE, "harness", "baselines", "XPathPrim.lean.txt")
SRC_EVAL = os.path.join("n0struct", "n0struct_utils.py")
SRC_SPLIT = os.path.join("n0struct", "n0struct_utils_find.py")
MAX_OUTPUT_LINES = 700


# ----------------------------------------------------------------------------------------------
# types: the base types + "none", ("tuple", [t...]) and, for results only, unions
# ----------------------------------------------------------------------------------------------
class Union:
    """a result type that is a union of Python types, represented by an inductive type of the model"""

    def __init__(self, lean, alts):
        self.lean, self.alts = lean, alts  # alts: [(type pattern, constructor)]


def is_tuple(t):
    return isinstance(t, tuple) and t[0] == "tuple"


def type_name(t):
    if isinstance(t, Union):
        return t.lean
    if is_tuple(t):
        return "tuple[%s]" % ", ".join(type_name(x) for x in t[1])
    if is_list(t):
        return "list[%s]" % (type_name(t[1].ty) if t[1].ty else "?")
    return base_type_name(t)


def lean_type(t):
    if isinstance(t, Union):
        return t.lean
    if t == "none":
        return "Unit"
    if is_tuple(t):
        return "(" + " × ".join(lean_type(x) for x in t[1]) + ")"
    if is_list(t):
        if t[1].ty is None:
            raise TranslateError("element type of a list is never determined")
        inner = lean_type(t[1].ty)
        return "List " + (inner if " " not in inner else "(%s)" % inner)
    return base.lean_type(t)


def same_type(a, b):
    if is_list(a) and is_list(b):
        if a[1].ty is None or b[1].ty is None:
            return True
        return same_type(a[1].ty, b[1].ty)
    if is_tuple(a) and is_tuple(b):
        return len(a[1]) == len(b[1]) and all(same_type(x, y) for x, y in zip(a[1], b[1]))
    return a == b


def unify(a, b, what):
    if is_tuple(a) and is_tuple(b):
        if len(a[1]) != len(b[1]):
            raise TranslateError("%s: tuples of different length" % what)
        for x, y in zip(a[1], b[1]):
            unify(x, y, what)
        return a
    if is_tuple(a) or is_tuple(b):
        raise TranslateError("%s: types %s and %s differ" % (what, type_name(a), type_name(b)))
    return base_unify(a, b, what)


def proj(text, i, n):
    """i-th component of a Lean tuple value of n components (right-nested pairs)"""
    if n == 1:
        return text
    return text + ".2" * i + (".1" if i < n - 1 else "")


COND_VAL = Union("XPath.CondVal", [("str", "XPath.CondVal.str"), ("bool", "XPath.CondVal.bool")])
IDX = Union("XPath.Idx", [("none", "XPath.Idx.none"), ("str", "XPath.Idx.str"), (("tuple", ["str", "str", COND_VAL]), "XPath.Idx.cond")])
EVAL_RES = Union("XPath.EvalRes", [("int", "XPath.EvalRes.int"), ("str", "XPath.EvalRes.str")])


def coerce(text, ty, target, what, parts=None):
    """Lean text of the value `text : ty` seen as a value of the result type `target`"""
    if isinstance(target, Union):
        for pat, ctor in target.alts:
            if is_tuple(pat):
                if is_tuple(ty) and len(ty[1]) == len(pat[1]):
                    n = len(pat[1])
                    comps = [coerce(parts[i] if parts else proj(text, i, n), ty[1][i], pat[1][i], what) for i in range(n)]
                    return "(%s %s)" % (ctor, " ".join(comps))
            elif pat == ty:
                return ctor if ty == "none" else "(%s %s)" % (ctor, text)
        raise TranslateError("%s: a value of type %s is not a case of the result type %s" % (what, type_name(ty), target.lean))
    if is_tuple(target):
        if not (is_tuple(ty) and len(ty[1]) == len(target[1])):
            raise TranslateError("%s: a value of type %s where a %s is returned" % (what, type_name(ty), type_name(target)))
        n = len(target[1])
        comps = [coerce(parts[i][0] if parts else proj(text, i, n), ty[1][i], target[1][i], what, parts[i][1] if parts else None) for i in range(n)]
        return "(" + ", ".join(comps) + ")"
    if is_list(target) and is_list(ty):
        unify(target, ty, what)
        return text
    if not same_type(ty, target):
        raise TranslateError("%s: a value of type %s where a %s is returned" % (what, type_name(ty), type_name(target)))
    return text


# ----------------------------------------------------------------------------------------------
# the translator
# ----------------------------------------------------------------------------------------------
STRAIGHT = (ast.Assign, ast.AugAssign, ast.AnnAssign, ast.Pass)


def is_straight(stmts):
    """only assignments, append/extend and `if`s of such statements: control leaves the block at its end"""
    for s in stmts:
        if isinstance(s, STRAIGHT):
            continue
        if isinstance(s, ast.Expr):
            v = s.value
            if isinstance(v, ast.Constant):
                continue
            if isinstance(v, ast.Call) and isinstance(v.func, ast.Attribute) and v.func.attr in ("append", "extend"):
                continue
            return False
        if isinstance(s, ast.If):
            if is_straight(s.body) and is_straight(s.orelse):
                continue
            return False
        return False
    return True


def walk_code(node):
    """ast.walk without annotations (they are not evaluated in a way that matters here)"""
    todo = [node]
    while todo:
        n = todo.pop()
        yield n
        for field, value in ast.iter_fields(n):
            if field in ("annotation", "returns"):
                continue
            if isinstance(value, list):
                todo.extend(v for v in value if isinstance(v, ast.AST))
            elif isinstance(value, ast.AST):
                todo.append(value)


class XpTranslator(base.FnTranslator):
    def __init__(self, fn, lean_name, spec, ret, externs=None, nested=None, module=None):
        """ret: result type (plain, tuple or Union); externs: {python name: (module, attribute, lean effect, arg types, result type)};
        nested: {python name of a nested function: (lean suffix, parameter types by position, ret)}"""
        super().__init__(fn, lean_name, spec)
        self.ret = ret
        self.externs = externs or {}
        self.nested_specs = nested or {}
        self.nested = {}  # python name -> (lean name, param types, ret)
        self.module = module
        self.loop_texts = {}  # decl text with a placeholder for the loop suffix -> suffix
        self.vb_depth = 0  # > 0 while the alternatives of a joined `if` / the body of `try` are translated

    # ---------------- snapshots (trial translations)
    def snapshot(self):
        return (self.ntemps, len(self.decls), self.nloops, dict(self.loop_texts), dict(self.local_names), dict(self.legend), list(self.pending))

    def restore(self, snap):
        self.ntemps, nd, self.nloops, self.loop_texts, self.local_names, self.legend, self.pending = snap[0], snap[1], snap[2], dict(snap[3]), dict(snap[4]), dict(snap[5]), list(snap[6])
        del self.decls[nd:]

    # ---------------- static facts
    def static_type_test(self, e, env):
        if isinstance(e, ast.Compare) and len(e.ops) == 1 and isinstance(e.ops[0], (ast.Is, ast.IsNot)):
            r = e.comparators[0]
            if isinstance(r, ast.Constant) and r.value is None and isinstance(e.left, ast.Name):
                ty = self.lookup(e.left.id, env, e).ty
                return (ty == "none") == isinstance(e.ops[0], ast.Is)
        return super().static_type_test(e, env)

    # ---------------- expressions
    def literal(self, e, env):
        if isinstance(e, ast.Constant) and e.value is None:
            return B("()", "none", True)
        if isinstance(e, (ast.Tuple, ast.List)) and e.elts:
            lits = [self.literal(x, env) for x in e.elts]
            if all(l is not None and not is_list(l.ty) and l.ty != "none" for l in lits) and len({l.ty for l in lits}) == 1:
                # a homogeneous tuple / list display of literals is a constant sequence (lists are values: no aliasing)
                return B("[" + ", ".join(l.text for l in lits) + "]", t_list(lits[0].ty), True)
            return None
        if isinstance(e, ast.Name) and e.id in env and env[e.id].const and is_list(env[e.id].ty) and env[e.id].text != "[]":
            return env[e.id]
        return super().literal(e, env)

    def truth(self, e, env):
        v = self.static_truth(e, env)
        if v is None and not isinstance(e, (ast.UnaryOp, ast.BoolOp)):
            lit = self.literal(e, env)
            if lit is not None and lit.ty == "none":
                return "false"
        return super().truth(e, env)

    def expr(self, e, env):
        if isinstance(e, ast.Tuple):
            lit = self.literal(e, env)
            if lit is not None:
                return lit.text, lit.ty
            parts = [self.expr(x, env) for x in e.elts]
            return "(" + ", ".join(t for t, _ in parts) + ")", ("tuple", [ty for _, ty in parts])
        if isinstance(e, ast.List) and e.elts:
            lit = self.literal(e, env)
            if lit is not None:
                return lit.text, lit.ty
        if isinstance(e, ast.ListComp):
            return self.listcomp(e, env)
        if isinstance(e, ast.BinOp) and isinstance(e.op, ast.Add):
            # list + list is not in the base subset and stays outside; everything else is the base rule
            pass
        return super().expr(e, env)

    def listcomp(self, e, env):
        if len(e.generators) != 1 or e.generators[0].is_async:
            raise TranslateError("line %d: comprehension with more than one `for`" % e.lineno)
        g = e.generators[0]
        it, index_name = g.iter, None
        if isinstance(it, ast.Call) and isinstance(it.func, ast.Name) and it.func.id == "enumerate" and len(it.args) == 1 and not it.keywords:
            if not (isinstance(g.target, ast.Tuple) and len(g.target.elts) == 2 and all(isinstance(x, ast.Name) for x in g.target.elts)):
                raise TranslateError("line %d: enumerate without `for i, x in`" % e.lineno)
            index_name, elem_name = g.target.elts[0].id, g.target.elts[1].id
            it = it.args[0]
        elif isinstance(g.target, ast.Name):
            elem_name = g.target.id
        else:
            raise TranslateError("line %d: comprehension target outside the subset" % e.lineno)
        seq, seq_ty = self.expr(it, env)
        if seq_ty == "str":
            raw, elem_ty, elem_text = "Char", "str", "[ci%s]"
        elif is_list(seq_ty) and seq_ty[1].ty is not None and not is_list(seq_ty[1].ty):
            raw, elem_ty, elem_text = lean_type(seq_ty[1].ty), seq_ty[1].ty, "ci%s"
        else:
            raise TranslateError("line %d: comprehension over a %s" % (e.lineno, type_name(seq_ty)))
        read = {n.id for n in ast.walk(e.elt) if isinstance(n, ast.Name)} | {n.id for c in g.ifs for n in ast.walk(c) if isinstance(n, ast.Name)}
        use_index = index_name is not None and index_name in read
        if elem_name in env or (index_name and index_name in env):
            raise TranslateError("line %d: the comprehension variable re-uses a name that is already bound" % e.lineno)
        cenv = dict(env)
        lets = []
        x = self.local(elem_name)
        cenv[elem_name] = B(x, elem_ty, False, False)
        lets.append("let %s : %s := %s" % (x, lean_type(elem_ty), elem_text % (".1" if use_index else "")))
        if use_index:
            xi = self.local(index_name)
            cenv[index_name] = B(xi, "int", False, False)
            lets.append("let %s : Int := Int.ofNat ci.2" % xi)
        n0 = len(self.pending)
        conds = [self.truth(c, cenv) for c in g.ifs]
        val, vty = self.expr(e.elt, cenv)
        if len(self.pending) > n0:
            raise TranslateError("line %d: the element or the filter of a comprehension may raise" % e.lineno)
        if is_list(vty):
            raise TranslateError("line %d: a list of lists" % e.lineno)
        binder = "(ci : %s)" % ("%s × Nat" % raw if use_index else raw)
        src = "(List.zipIdx %s)" % seq if use_index else seq
        if conds:
            body = "if %s then some %s else none" % (" && ".join(conds) if len(conds) == 1 else "(" + " && ".join(conds) + ")", val)
            return "(List.filterMap (fun %s => %s; %s) %s)" % (binder, "; ".join(lets), body, src), t_list(vty)
        return "(List.map (fun %s => %s; %s) %s)" % (binder, "; ".join(lets), val, src), t_list(vty)

    def subscript(self, e, env):
        sl = e.slice
        if isinstance(sl, ast.Slice) and sl.step is None and sl.lower is not None and sl.upper is not None:
            v, vt = self.expr(e.value, env)
            a, at = self.expr(sl.lower, env)
            b, bt = self.expr(sl.upper, env)
            if (vt == "str" or is_list(vt)) and at == bt == "int":
                return "(sliceFromTo %s %s %s)" % (v, a, b), vt
            raise TranslateError("line %d: slice of a %s with bounds %s, %s" % (e.lineno, type_name(vt), type_name(at), type_name(bt)))
        return super().subscript(e, env)

    def compare(self, e, env):
        if len(e.ops) == 1 and isinstance(e.ops[0], (ast.Eq, ast.NotEq)):
            # comparisons with None / tuples are not needed by the two functions
            for x in (e.left, e.comparators[0]):
                if isinstance(x, ast.Constant) and x.value is None:
                    raise TranslateError("line %d: `==` with None (use `is`)" % e.lineno)
        return super().compare(e, env)

    def nonempty_literal(self, node, env):
        lit = self.literal(node, env)
        return lit is not None and lit.ty == "str" and lit.text != "([] : Str)"

    def call(self, e, env):
        f = e.func
        if isinstance(f, ast.Name) and not e.keywords:
            if f.id in ("int", "float") and len(e.args) == 1:
                t, ty = self.expr(e.args[0], env)
                if ty == "str":
                    # `float` has no values in the generated code (pyFloatE never returns): typed as int arithmetic
                    return self.effect("%s %s" % ("pyIntE" if f.id == "int" else "pyFloatE", t)), "int"
                if ty == "int" and f.id == "int":
                    return t, ty
                raise TranslateError("line %d: %s() of a %s" % (e.lineno, f.id, type_name(ty)))
            if f.id in self.nested and f.id not in env:
                lean, ptys, ret = self.nested[f.id]
                if len(e.args) != len(ptys):
                    raise TranslateError("line %d: %s called with %d argument(s)" % (e.lineno, f.id, len(e.args)))
                args = []
                for a, pty in zip(e.args, ptys):
                    t, ty = self.expr(a, env)
                    if not same_type(ty, pty):
                        raise TranslateError("line %d: %s called with a %s where the specialisation has %s" % (e.lineno, f.id, type_name(ty), type_name(pty)))
                    args.append(t)
                return self.effect("%s %s" % (lean, " ".join(args))), ret
            if f.id in self.externs and f.id not in env:
                _mod, _attr, lean, ptys, ret = self.externs[f.id]
                if len(e.args) != len(ptys):
                    raise TranslateError("line %d: %s called with %d argument(s)" % (e.lineno, f.id, len(e.args)))
                args = []
                for a, pty in zip(e.args, ptys):
                    t, ty = self.expr(a, env)
                    if ty != pty:
                        raise TranslateError("line %d: %s called with a %s" % (e.lineno, f.id, type_name(ty)))
                    args.append(t)
                return self.effect("%s %s" % (lean, " ".join(args))), ret
        if isinstance(f, ast.Attribute) and not e.keywords:
            m = f.attr
            if m == "lower" and not e.args:
                o, ot = self.expr(f.value, env)
                if ot == "str":
                    return "(Py.lower %s)" % o, "str"
                raise TranslateError("line %d: lower() of a %s" % (e.lineno, type_name(ot)))
            if m == "split" and len(e.args) in (1, 2):
                o, ot = self.expr(f.value, env)
                sep, st = self.expr(e.args[0], env)
                if ot != "str" or st != "str":
                    raise TranslateError("line %d: split of a %s by a %s" % (e.lineno, type_name(ot), type_name(st)))
                safe = self.nonempty_literal(e.args[0], env)
                if len(e.args) == 2:
                    if not (isinstance(e.args[1], ast.Constant) and e.args[1].value == 1 and not isinstance(e.args[1].value, bool)):
                        raise TranslateError("line %d: split with a maxsplit other than the literal 1" % e.lineno)
                    if safe:
                        return "(split1L %s %s)" % (sep, o), t_list("str")
                    return self.effect("split1E %s %s" % (sep, o)), t_list("str")
                if safe:
                    return "(Py.split %s %s)" % (sep, o), t_list("str")
                return self.effect("splitE %s %s" % (sep, o)), t_list("str")
        return super().call(e, env)

    # ---------------- statements
    def bind(self, name, e, env, node):
        if is_list(self.peek_type(e, env)) and isinstance(e, ast.Name) and (not env[e.id].const or env[e.id].text != "[]"):
            raise TranslateError("line %d: a second name for a list (aliasing)" % node.lineno)
        lit = self.literal(e, env)
        env = dict(env)
        if lit is not None:
            env[name] = B(lit.text, lit.ty, True, False)
            return env, []
        text, ty = self.expr(e, env)
        x = self.local(name)
        env[name] = B(x, ty, False, False)
        return env, ["let %s : %s := %s" % (x, lean_type(ty), text)]

    def assign_value(self, name, text, ty, env):
        env = dict(env)
        x = self.local(name)
        env[name] = B(x, ty, False, False)
        return env, ["let %s : %s := %s" % (x, lean_type(ty), text)]

    def ret_text(self, s, env):
        what = "line %d: return" % s.lineno
        if s.value is None:
            raise TranslateError("%s without a value" % what)
        v = s.value
        if isinstance(v, ast.IfExp):
            sv = self.static_truth(v.test, env)
            if sv is not None:
                v = v.body if sv else v.orelse
        if isinstance(v, ast.Tuple) and is_tuple(self.ret) and self.literal(v, env) is None:
            parts = []
            for x in v.elts:
                if isinstance(x, ast.IfExp):
                    sv = self.static_truth(x.test, env)
                    if sv is not None:
                        x = x.body if sv else x.orelse
                parts.append(self.expr(x, env))
            ty = ("tuple", [t for _, t in parts])
            return coerce(None, ty, self.ret, what, [(t, None) for t, _ in parts])
        text, ty = self.expr(v, env)
        return coerce(text, ty, self.ret, what)

    def pack_names(self, names, env):
        """Lean tuple of the current values of `names`"""
        vals = [env[n].text for n in names]
        return "()" if not vals else (vals[0] if len(vals) == 1 else "(" + ", ".join(vals) + ")")

    def unpack_names(self, names, tys, src, env):
        """(env, lets) binding `names` from the Lean tuple `src`"""
        env = dict(env)
        lets = []
        for i, (n, ty) in enumerate(zip(names, tys)):
            x = self.local(n)
            env[n] = B(x, ty, False, False)
            lets.append("let %s : %s := %s" % (x, lean_type(ty), proj(src, i, len(names))))
        return env, lets

    def value_block(self, stmts_list, env, what):
        """straight alternatives (e.g. the two branches of an `if`) -> (names, types, [text per alternative], pure?)
        where each text computes the tuple of the names assigned; None when the alternatives cannot be joined"""
        snap = self.snapshot()
        ends = []

        def rec(e2):
            ends.append(e2)
            return ".ok ()"

        self.vb_depth += 1
        try:
            for stmts in stmts_list:
                self.block(list(stmts), env, rec)
        except BaseException:
            self.vb_depth -= 1
            raise
        finally:
            self.restore(snap)
        assigned = []
        for stmts in stmts_list:
            for n, _l, _c in self.assigned_names(stmts):
                if n not in assigned:
                    assigned.append(n)
        names = []
        for n in assigned:
            if not all(n in e2 for e2 in ends):
                continue  # not bound on every path: not bound afterwards
            tys = [e2[n].ty for e2 in ends]
            if not all(same_type(tys[0], t) for t in tys[1:]):
                return None
            if all(e2[n].const and e2[n].text == ends[0][n].text for e2 in ends) and n in env and env[n].const and env[n].text == ends[0][n].text:
                continue  # the same literal everywhere
            names.append(n)
        if not names:
            return None
        names.sort(key=lambda n: (self.first_assignment(n), n))
        tys = [ends[0][n].ty for n in names]
        for e2 in ends[1:]:
            for n, t in zip(names, tys):
                if is_list(t):
                    unify(t, e2[n].ty, what)
        try:
            texts = [self.block(list(stmts), env, lambda e2: ".ok " + self.pack_names(names, e2)) for stmts in stmts_list]
            pure = all(".error" not in t and "match " not in t for t in texts)
            if pure:
                self.restore(snap)
                texts = [self.block(list(stmts), env, lambda e2: self.pack_names(names, e2)) for stmts in stmts_list]
        finally:
            self.vb_depth -= 1
        return names, tys, texts, pure

    def block(self, stmts, env, k):
        if not stmts:
            return k(env)
        if self.pending:
            raise TranslateError("internal: unflushed effects")
        s, rest = stmts[0], stmts[1:]
        if isinstance(s, ast.FunctionDef):
            self.nested_function(s, env)
            return self.block(rest, env, k)
        if isinstance(s, ast.AnnAssign):
            if s.value is None or not isinstance(s.target, ast.Name):
                raise TranslateError("line %d: annotated assignment outside the subset" % s.lineno)
            return self.block([ast.Assign(targets=[s.target], value=s.value, lineno=s.lineno)] + rest, env, k)
        if isinstance(s, ast.Assign) and len(s.targets) == 1 and isinstance(s.targets[0], ast.Tuple):
            return self.tuple_assign(s, rest, env, k)
        if isinstance(s, ast.Expr) and isinstance(s.value, ast.Call) and isinstance(s.value.func, ast.Attribute) and s.value.func.attr == "extend" \
                and isinstance(s.value.func.value, ast.Name) and len(s.value.args) == 1 and not s.value.keywords:
            name = s.value.func.value.id
            b = self.lookup(name, env, s)
            if not is_list(b.ty):
                raise TranslateError("line %d: extend on a %s" % (s.lineno, type_name(b.ty)))
            self.check_assignable(name, s)
            t, ty = self.expr(s.value.args[0], env)
            if not is_list(ty) or (ty[1].ty is not None and is_list(ty[1].ty)):
                raise TranslateError("line %d: extend with a %s" % (s.lineno, type_name(ty)))
            unify(b.ty, ty, "line %d: extend" % s.lineno)
            env2, lets = self.assign_value(name, "(%s ++ %s)" % (b.text, t), b.ty, env)
            eff = self.take()
            return self.wrap(eff, "\n".join(lets + [self.block(rest, env2, k)]))
        if isinstance(s, ast.AugAssign) and isinstance(s.op, ast.Add) and isinstance(s.target, ast.Name) and s.target.id in env \
                and is_list(env[s.target.id].ty) and not isinstance(s.value, ast.List):
            # `lst += e` for a list value is `lst.extend(e)`
            call = ast.Expr(value=ast.Call(func=ast.Attribute(value=ast.Name(id=s.target.id, ctx=ast.Load(), lineno=s.lineno), attr="extend", ctx=ast.Load(), lineno=s.lineno),
                                           args=[s.value], keywords=[], lineno=s.lineno), lineno=s.lineno)
            return self.block([call] + rest, env, k)
        if isinstance(s, ast.Return):
            text = self.ret_text(s, env)
            eff = self.take()
            if self.loop is not None:
                if not self.loop.get("ctl"):
                    raise TranslateError("line %d: return inside a loop" % s.lineno)
                return self.wrap(eff, ".ok (.exit %s)" % (("(.inl %s)" % text) if self.loop["both"] else text))
            return self.wrap(eff, ".ok %s" % text)
        if isinstance(s, ast.Break):
            if self.loop is None or not self.loop.get("ctl"):
                raise TranslateError("line %d: break outside a loop" % s.lineno)
            return self.loop["brk"](env)
        if isinstance(s, ast.Try):
            return self.try_stmt(s, rest, env, k)
        if isinstance(s, ast.If) and (rest or self.vb_depth == 0) and self.static_truth(s.test, env) is None and is_straight(s.body) and is_straight(s.orelse):
            joined = self.join_if(s, rest, env, k)
            if joined is not None:
                return joined
        return super().block(stmts, env, k)

    def join_if(self, s, rest, env, k):
        snap = self.snapshot()
        try:
            c = self.truth(s.test, env)
        except NeedsControlFlow:
            self.restore(snap)
            return None
        eff = self.take()
        vb = self.value_block([s.body, s.orelse], env, "line %d: if" % s.lineno)
        if vb is None:
            self.restore(snap)
            return None
        names, tys, (tt, tf), pure = vb
        tup = "(" + " × ".join(lean_type(t) for t in tys) + ")" if len(tys) > 1 else lean_type(tys[0])
        cond = "if %s then\n%s\nelse\n%s" % (c, indent(tt), indent(tf))
        if pure:
            if len(names) == 1:
                env2, _ = self.unpack_names(names, tys, "r", env)
                x = env2[names[0]].text
                text = "let %s : %s :=\n%s\n%s" % (x, tup, indent(cond), self.block(rest, env2, k))
            else:
                env2, lets = self.unpack_names(names, tys, "r", env)
                text = "let r : %s :=\n%s\n%s" % (tup, indent(cond), "\n".join(lets + [self.block(rest, env2, k)]))
            return self.wrap(eff, text)
        env2, lets = self.unpack_names(names, tys, "r", env)
        text = "match (%s : Except PyErr %s) with\n| .error e => .error e\n| .ok r =>\n%s" % ("\n" + indent(cond), tup, indent("\n".join(lets + [self.block(rest, env2, k)])))
        return self.wrap(eff, text)

    def tuple_assign(self, s, rest, env, k):
        tgt = s.targets[0]
        if not all(isinstance(x, ast.Name) for x in tgt.elts):
            raise TranslateError("line %d: tuple assignment to something that is not a local name" % s.lineno)
        names = [x.id for x in tgt.elts]
        for n in names:
            self.check_assignable(n, s)
        if isinstance(s.value, ast.Tuple) and len(s.value.elts) == len(names):
            vals = [self.expr(x, env) for x in s.value.elts]  # all right-hand sides first
            eff = self.take()
            lets, env2 = [], dict(env)
            for i, (text, ty) in enumerate(vals):
                lets.append("let r%d : %s := %s" % (i, lean_type(ty), text))
            for i, (n, (_t, ty)) in enumerate(zip(names, vals)):
                x = self.local(n)
                env2[n] = B(x, ty, False, False)
                lets.append("let %s : %s := r%d" % (x, lean_type(ty), i))
            return self.wrap(eff, "\n".join(lets + [self.block(rest, env2, k)]))
        text, ty = self.expr(s.value, env)
        if len(names) != 2:
            raise TranslateError("line %d: unpacking into %d names" % (s.lineno, len(names)))
        if is_list(ty) and ty[1].ty is not None and not is_list(ty[1].ty):
            t = self.effect("unpack2E %s" % text)  # ValueError unless the list has exactly two items
            ety = ty[1].ty
            tys = [ety, ety]
        elif is_tuple(ty) and len(ty[1]) == 2:
            t, tys = text, list(ty[1])
        else:
            raise TranslateError("line %d: unpacking a %s" % (s.lineno, type_name(ty)))
        eff = self.take()
        env2, lets = self.unpack_names(names, tys, t, env)
        return self.wrap(eff, "\n".join(lets + [self.block(rest, env2, k)]))

    def try_stmt(self, s, rest, env, k):
        if s.orelse or s.finalbody or len(s.handlers) != 1:
            raise TranslateError("line %d: try with else/finally or several handlers" % s.lineno)
        h = s.handlers[0]
        if h.name is not None or not (isinstance(h.type, ast.Name) and h.type.id == "Exception"):
            raise TranslateError("line %d: a handler other than `except Exception:`" % s.lineno)
        if not is_straight(s.body):
            raise TranslateError("line %d: the body of try transfers control (return/raise/loop)" % s.lineno)
        assigned = {a[0] for a in self.assigned_names(s.body)}
        read_h = {n.id for st in h.body for n in ast.walk(st) if isinstance(n, ast.Name)}
        if assigned & read_h:
            raise TranslateError("line %d: the handler reads %s, which the body of try assigns" % (s.lineno, sorted(assigned & read_h)))
        vb = self.value_block([s.body], env, "line %d: try" % s.lineno)
        if vb is None:
            raise TranslateError("line %d: the body of try binds nothing / binds names of different types" % s.lineno)
        names, tys, (body,), pure = vb
        tup = "(" + " × ".join(lean_type(t) for t in tys) + ")" if len(tys) > 1 else lean_type(tys[0])
        env_ok, lets = self.unpack_names(names, tys, "r", env)
        for n in assigned - set(names):
            env_ok.pop(n, None)
        ok_text = "\n".join(lets + [self.block(rest, env_ok, k)])
        if pure:
            return "let r : %s :=\n%s\n%s" % (tup, indent(body), ok_text)
        henv = {n: b for n, b in env.items() if n not in assigned}
        h_text = self.block(list(h.body) + rest, henv, k)
        return "match (%s : Except PyErr %s) with\n| .error e =>\n  if isException e then\n%s\n  else .error e\n| .ok r =>\n%s" % ("\n" + indent(body), tup, indent(h_text, 4), indent(ok_text))

    def nested_function(self, s, env):
        if s.name not in self.nested_specs:
            raise TranslateError("line %d: nested function %s is not covered by the specialisation" % (s.lineno, s.name))
        if s.decorator_list:
            raise TranslateError("line %d: decorated nested function" % s.lineno)
        suffix, ptys, ret = self.nested_specs[s.name]
        if len(ptys) != len(s.args.args):
            raise TranslateError("line %d: nested function %s has %d parameter(s), the specialisation %d" % (s.lineno, s.name, len(s.args.args), len(ptys)))
        spec = {a.arg: t for a, t in zip(s.args.args, ptys)}
        bound = {a.arg for a in s.args.args}
        for n in ast.walk(s):
            if isinstance(n, ast.Name) and isinstance(n.ctx, ast.Store):
                bound.add(n.id)
        free = {n.id for n in walk_code(s) if isinstance(n, ast.Name) and isinstance(n.ctx, ast.Load)} - bound - {"enumerate", "len", "int", "float", "str", "isinstance"}
        if free:
            raise TranslateError("line %d: nested function %s reads %s from the enclosing scope" % (s.lineno, s.name, sorted(free)))
        lean = "%s.%s" % (self.cap, suffix)
        tr = XpTranslator(s, lean, spec, ret)
        tr.translate_params()
        text = tr.translate()
        self.decls.append(text)
        self.legend[lean] = dict(tr.legend, **{"<function>": s.name})
        self.nested[s.name] = (lean, [spec[a.arg] for a in s.args.args], ret)
        for n in ast.walk(self.fn):
            if isinstance(n, ast.Name) and n.id == s.name and isinstance(n.ctx, ast.Store):
                raise TranslateError("%s is re-assigned" % s.name)

    # ---------------- loops
    @staticmethod
    def assigned_names(stmts):
        out = []
        for st in stmts:
            for n in ast.walk(st):
                if isinstance(n, (ast.Assign, ast.AnnAssign)):
                    for t in (n.targets if isinstance(n, ast.Assign) else [n.target]):
                        for m in ast.walk(t):
                            if isinstance(m, ast.Name):
                                out.append((m.id, n.lineno, m.col_offset))
                            elif isinstance(m, (ast.Subscript, ast.Attribute, ast.Starred)):
                                raise TranslateError("line %d: assignment to something that is not a local name" % n.lineno)
                elif isinstance(n, ast.AugAssign) and isinstance(n.target, ast.Name):
                    out.append((n.target.id, n.lineno, n.target.col_offset))
                elif isinstance(n, ast.Call) and isinstance(n.func, ast.Attribute) and n.func.attr in ("append", "extend", "insert", "pop", "clear", "remove", "sort", "reverse") \
                        and isinstance(n.func.value, ast.Name):
                    out.append((n.func.value.id, n.lineno, n.func.value.col_offset))
                elif isinstance(n, (ast.For, ast.While, ast.With, ast.FunctionDef, ast.Lambda, ast.NamedExpr, ast.Global, ast.Nonlocal, ast.Delete, ast.Import, ast.ImportFrom)):
                    raise TranslateError("line %d: %s inside a loop body / a joined block" % (getattr(n, "lineno", 0), type(n).__name__))
        return out

    def first_assignment(self, name):
        best = None
        for n in ast.walk(self.fn):
            tgts = []
            if isinstance(n, ast.Assign):
                tgts = n.targets
            elif isinstance(n, (ast.AugAssign, ast.AnnAssign, ast.For)):
                tgts = [n.target]
            elif isinstance(n, ast.comprehension):
                tgts = [n.target]
            for t in tgts:
                for m in ast.walk(t):
                    if isinstance(m, ast.Name) and m.id == name:
                        pos = (m.lineno, m.col_offset)
                        if best is None or pos < best:
                            best = pos
        return best or (10**9, 0)

    def for_loop(self, s, rest, env, k):
        if self.loop is not None:
            raise TranslateError("line %d: nested loop" % s.lineno)
        it, index_name = s.iter, None
        if isinstance(it, ast.Call) and isinstance(it.func, ast.Name) and it.func.id == "enumerate" and len(it.args) == 1 and not it.keywords:
            if not (isinstance(s.target, ast.Tuple) and len(s.target.elts) == 2 and all(isinstance(x, ast.Name) for x in s.target.elts)):
                raise TranslateError("line %d: enumerate without `for i, x in`" % s.lineno)
            index_name, elem_name = s.target.elts[0].id, s.target.elts[1].id
            it = it.args[0]
        elif isinstance(s.target, ast.Name):
            elem_name = s.target.id
        else:
            raise TranslateError("line %d: loop target outside the subset" % s.lineno)
        seq, seq_ty = self.expr(it, env)
        seq_eff = self.take()
        if seq_ty == "str":
            elem_ty, raw_ty = "str", "Char"
        elif is_list(seq_ty) and seq_ty[1].ty is not None and not is_list(seq_ty[1].ty):
            elem_ty, raw_ty = seq_ty[1].ty, lean_type(seq_ty[1].ty)
        else:
            raise TranslateError("line %d: iteration over a %s" % (s.lineno, type_name(seq_ty)))
        body_nodes = [n for st in s.body for n in ast.walk(st)]
        has_ret = any(isinstance(n, ast.Return) for n in body_nodes)
        has_brk = any(isinstance(n, ast.Break) for n in body_nodes)
        ctl = has_ret or has_brk or bool(s.orelse)
        read = self.names_read_outside_raise(s.body)
        use_index = index_name is not None and index_name in read
        assigned = self.assigned_names(s.body)
        assigned_set = {a[0] for a in assigned}
        frozen = {n.id for n in ast.walk(it) if isinstance(n, ast.Name)}
        if (assigned_set | {elem_name, index_name}) & frozen:
            raise TranslateError("line %d: the loop body assigns a name the loop header reads" % s.lineno)
        if elem_name in env or (index_name and index_name in env):
            raise TranslateError("line %d: the loop target re-uses a name that is already bound" % s.lineno)
        carried = [n for n in assigned_set if n in env and n != elem_name]
        carried.sort(key=lambda n: (type_rank(env[n].ty), self.first_assignment(n), n))
        field_tys = [env[n].ty for n in carried]
        fields = ["f%d" % i for i in range(len(carried))]
        st_ty = "⟦S⟧" if carried else "Unit"

        def state(e2):
            vals = []
            for n, ty in zip(carried, field_tys):
                b = e2[n]
                if is_list(ty) and is_list(b.ty):
                    unify(ty, b.ty, "loop-carried %r" % n)
                elif not same_type(b.ty, ty):
                    raise TranslateError("loop-carried %r changes its type from %s to %s" % (n, type_name(ty), type_name(b.ty)))
                vals.append(b.text)
            return "⟨%s⟩" % ", ".join(vals) if carried else "()"

        def pack(e2):
            return (".ok (.next %s)" if ctl else ".ok %s") % state(e2)

        def make_body(brk):
            benv = {n: B(b.text, b.ty, b.const, True) for n, b in env.items()}
            head = []
            for n, f, ty in zip(carried, fields, field_tys):
                x = self.local(n)
                benv[n] = B(x, ty, False, False)
                head.append((x, ty, f))
            self.loop = {"pack": pack, "captured": {}, "frozen": frozen, "ctl": ctl, "both": has_ret and has_brk, "brk": brk}
            if seq_ty == "str":
                x = self.local(elem_name)
                benv[elem_name] = B(x, "str", False, False)
                elem_lets = ["let %s : Str := [c]" % x]
            else:
                benv[elem_name] = B("c", elem_ty, False, False)
                elem_lets = []
            if use_index:
                x = self.local(index_name)
                benv[index_name] = B(x, "int", False, False)
                elem_lets = ["let c : %s := ci.1" % raw_ty, "let %s : Int := Int.ofNat ci.2" % x] + elem_lets
            try:
                body = self.block(list(s.body), benv, pack)
                captured = self.loop["captured"]
            finally:
                self.loop = None
            return ["let %s : %s := st.%s" % (x, lean_type(ty), f) for x, ty, f in head] + elem_lets + [body], captured

        # what a `break` exports: the names assigned in the body (and the loop targets) that are bound, with the same
        # type, at every `break`
        exported, exp_tys = [], []
        if has_brk:
            snap = self.snapshot()
            ends = []

            def rec(e2):
                ends.append(e2)
                return ".ok (.exit ())"

            try:
                make_body(rec)
            finally:
                self.restore(snap)
            cands = [n for n in sorted(assigned_set | {elem_name} | ({index_name} if use_index else set())) if all(n in e2 for e2 in ends)]
            for n in cands:
                tys = [e2[n].ty for e2 in ends]
                if not all(same_type(tys[0], t) for t in tys[1:]):
                    raise TranslateError("line %d: %r has different types at the `break`s of the loop" % (s.lineno, n))
            exported = sorted(cands, key=lambda n: (type_rank(ends[0][n].ty), self.first_assignment(n), n))
            exp_tys = [ends[0][n].ty for n in exported]
        exp_lean = "Unit" if not exported else (lean_type(exp_tys[0]) if len(exported) == 1 else "(" + " × ".join(lean_type(t) for t in exp_tys) + ")")

        def brk(e2):
            payload = self.pack_names(exported, e2)
            return ".ok (.exit %s)" % (("(.inr %s)" % payload) if has_ret and has_brk else payload)

        lines, captured = make_body(brk)
        ret_lean = lean_type(self.ret)
        exit_ty = ("(%s ⊕ %s)" % (ret_lean, exp_lean)) if has_ret and has_brk else (ret_lean if has_ret else exp_lean)
        cap_names = sorted(captured, key=lambda n: (n[0], int(n[1:])))
        params = "".join(" (%s : %s)" % (n, lean_type(captured[n])) for n in cap_names)
        res_ty = ("(Ctl %s %s)" % (exit_ty, st_ty)) if ctl else st_ty
        decl_struct = "structure ⟦S⟧ where\n%s\n  deriving Repr, DecidableEq" % "\n".join("  %s : %s" % (f, lean_type(ty)) for f, ty in zip(fields, field_tys)) if carried else ""
        decl_step = "def ⟦F⟧%s (st : %s) (%s) : Except PyErr %s :=\n%s" % (
            params, st_ty, "ci : %s × Nat" % raw_ty if use_index else "c : %s" % raw_ty, res_ty, indent("\n".join(lines)))
        key = decl_struct + "\n" + decl_step
        if key in self.loop_texts:
            suffix = self.loop_texts[key]  # the same loop reached on another path: one definition
        else:
            self.nloops += 1
            suffix = "" if self.nloops == 1 else str(self.nloops)
            self.loop_texts[key] = suffix
            names = {"⟦S⟧": "%s.State%s" % (self.cap, suffix), "⟦F⟧": "%s.step%s" % (self.cap, suffix)}
            for d in (decl_struct, decl_step):
                if d:
                    for a, b_ in names.items():
                        d = d.replace(a, b_)
                    self.decls.append(d)
            for f, n in zip(fields, carried):
                self.legend["%s.%s" % (names["⟦S⟧"], f)] = n
        st_name = "%s.State%s" % (self.cap, suffix) if carried else "Unit"
        step_name = "%s.step%s" % (self.cap, suffix)
        init = "(⟨%s⟩ : %s)" % (", ".join(env[n].text for n in carried), st_name) if carried else "()"
        seq_text = "(List.zipIdx %s)" % seq if use_index else seq
        call = "%s (%s%s) %s %s" % ("foldC" if ctl else "foldE", step_name, "".join(" " + n for n in cap_names), init, seq_text)

        def after_normal():
            aenv = {n: b for n, b in env.items()}
            lets = []
            for n, f, ty in zip(carried, fields, field_tys):
                x = self.local(n)
                aenv[n] = B(x, ty, False, False)
                lets.append("let %s : %s := st.%s" % (x, lean_type(ty), f))
            return "\n".join(lets + [self.block(list(s.orelse) + rest, aenv, k)])

        if not ctl:
            return self.wrap(seq_eff, "match %s with\n| .error e => .error e\n| .ok st =>\n%s" % (call, indent(after_normal())))
        arms = ["| .error e => .error e"]
        if has_ret:
            arms.append("| .ok (.exit %s) => .ok r" % ("(.inl r)" if has_brk else "r"))
        if has_brk:
            aenv = {n: b for n, b in env.items()}
            aenv, lets = self.unpack_names(exported, exp_tys, "b", aenv)
            arms.append("| .ok (.exit %s) =>\n%s" % ("(.inr b)" if has_ret else "b", indent("\n".join(lets + [self.block(rest, aenv, k)]))))
        elif not has_ret:
            arms.append("| .ok (.exit _) => .error .Unsupported")
        arms.append("| .ok (.next st) =>\n%s" % indent(after_normal()))
        return self.wrap(seq_eff, "match %s with\n%s" % (call, "\n".join(arms)))

    # ---------------- the function
    def translate_params(self):
        pass

    def translate(self):
        fn = self.fn
        a = fn.args
        if a.vararg or a.kwarg or a.kwonlyargs or a.posonlyargs or a.defaults:
            raise TranslateError("%s: parameter kinds outside the subset" % fn.name)
        env, params = {}, []
        for p in a.args:
            want = self.spec.get(p.arg)
            if want is None:
                raise TranslateError("%s: parameter %r is not covered by the specialisation" % (fn.name, p.arg))
            if isinstance(want, tuple) and want[0] == "list" and not isinstance(want[1], base.Cell):
                want = t_list(want[1])
            name = "a%d" % len(params)
            params.append((name, want))
            self.legend[name] = p.arg
            env[p.arg] = B(name, want, False, False)
        for n in ast.walk(fn):
            if isinstance(n, (ast.Yield, ast.YieldFrom, ast.Await, ast.While, ast.With, ast.Global, ast.Nonlocal, ast.Lambda, ast.NamedExpr, ast.Delete)):
                raise TranslateError("%s: %s is outside the subset" % (fn.name, type(n).__name__))
        for name, (mod, attr, _lean, _ptys, _ret) in self.externs.items():
            self.check_extern(name, mod, attr)

        def fell_off(_env):
            raise TranslateError("%s: control may reach the end of the function without `return`" % fn.name)

        body = self.block(list(fn.body), env, fell_off)
        sig = "".join(" (%s : %s)" % (n, lean_type(t)) for n, t in params)
        rt = lean_type(self.ret)
        self.decls.append("def %s%s : Except PyErr %s :=\n%s" % (self.lean_name, sig, rt if " " not in rt or rt.startswith("(") else "(%s)" % rt, indent(body)))
        return "\n\n".join(self.decls)

    def check_extern(self, name, mod, attr):
        """the module must bind `name` by `from mod import attr as name` (once), and never otherwise"""
        if self.module is None:
            return
        hits = 0
        for n in ast.walk(self.module):
            if isinstance(n, ast.ImportFrom):
                for al in n.names:
                    if (al.asname or al.name) == name:
                        if n.module == mod and al.name == attr and n.level == 0 and n in self.module.body:
                            hits += 1
                        else:
                            raise TranslateError("%s is imported from somewhere else than %s.%s" % (name, mod, attr))
            elif isinstance(n, ast.Import):
                for al in n.names:
                    if (al.asname or al.name.split(".")[0]) == name:
                        raise TranslateError("%s is bound by a plain import" % name)
            elif isinstance(n, ast.Name) and n.id == name and isinstance(n.ctx, ast.Store):
                raise TranslateError("%s is assigned in the module" % name)
            elif isinstance(n, (ast.FunctionDef, ast.ClassDef)) and n.name == name:
                raise TranslateError("%s is defined in the module" % name)
            elif isinstance(n, ast.arg) and n.arg == name:
                raise TranslateError("%s is a parameter name" % name)
        if hits != 1:
            raise TranslateError("expected `from %s import %s as %s` exactly once" % (mod, attr, name))


# ----------------------------------------------------------------------------------------------
# the file
# ----------------------------------------------------------------------------------------------
PRELUDE = """-- GENERATED by harness/translate_py_xp.py from n0struct/n0struct_utils.py and n0struct/n0struct_utils_find.py; do not edit
import N0Verif.Py.Basic
import N0Verif.Model.XPath
/-!
  Lean definitions regenerated from the Python source of `n0eval` and `split_name_index` on every run of
  `./check C01`.  `Props/C01.lean` proves them equal to the hand-written model (`XPath.n0eval`,
  `XPath.splitNameIndex` of `Model/XPath.lean`).  Names are normalised: `a<i>` parameters, `f<i>` loop-carried
  locals (sorted by type, then by first assignment), `x<i>` locals in order of first binding, `t<i>` values of
  expressions that may raise.  Results of union type are values of the model's `EvalRes` / `Idx` / `CondVal`.
-/
set_option linter.unusedVariables false
namespace N0.Gen.XPathPrim
open N0 N0.Py

/-! ### run-time support of the translated subset -/

/-- a `for` loop whose body may raise -/
def foldE {σ α : Type} (f : σ → α → Except PyErr σ) : σ → List α → Except PyErr σ
  | s, [] => .ok s
  | s, x :: xs =>
    match f s x with
    | .error e => .error e
    | .ok s' => foldE f s' xs

/-- how one iteration of a loop with `return` / `break` ends: the loop is left (`exit`: the value returned, or the
names a `break` exports), or the next iteration starts from a state -/
inductive Ctl (ε σ : Type)
  | exit (x : ε)
  | next (s : σ)

/-- a `for` loop whose body may raise, `return` or `break`; `.next` = the sequence was exhausted (`else:` runs) -/
def foldC {ε σ α : Type} (f : σ → α → Except PyErr (Ctl ε σ)) : σ → List α → Except PyErr (Ctl ε σ)
  | s, [] => .ok (.next s)
  | s, x :: xs =>
    match f s x with
    | .error e => .error e
    | .ok (.exit r) => .ok (.exit r)
    | .ok (.next s') => foldC f s' xs

/-- what `except Exception:` catches: every Python exception class of the model; `Unsupported` (input outside the
modelled scope) and `OutOfFuel` are not Python exceptions and pass through -/
def isException (e : PyErr) : Bool := !(e == .Unsupported || e == .OutOfFuel)

/-- `s[:e]` -/
def sliceTo {α : Type} (s : List α) (e : Int) : List α :=
  if e < 0 then s.take (s.length - e.natAbs) else s.take e.toNat

/-- `s[e:]` -/
def sliceFrom {α : Type} (s : List α) (e : Int) : List α :=
  if e < 0 then s.drop (s.length - e.natAbs) else s.drop e.toNat

/-- a slice bound as Python normalises it (negative: counted from the end, not below 0) -/
def normBound (len : Nat) (x : Int) : Nat := if x < 0 then (x + Int.ofNat len).toNat else x.toNat

/-- `s[a:b]` -/
def sliceFromTo {α : Type} (s : List α) (a b : Int) : List α :=
  (s.drop (normBound s.length a)).take (normBound s.length b - normBound s.length a)

/-- `s[i]` (raises `IndexError` outside the range) -/
def idxE {α : Type} (s : List α) (i : Int) : Except PyErr α :=
  let j : Int := if i < 0 then i + Int.ofNat s.length else i
  if j < 0 then .error .IndexError
  else match s[j.toNat]? with
    | some v => .ok v
    | none => .error .IndexError

/-- `a, b = l`: `ValueError` unless `l` has exactly two items -/
def unpack2E {α : Type} : List α → Except PyErr (α × α)
  | [a, b] => .ok (a, b)
  | _ => .error .ValueError

/-- `s.split(sep)`: `ValueError` for the empty separator -/
def splitE (sep s : Str) : Except PyErr (List Str) :=
  if sep.isEmpty then .error .ValueError else .ok (Py.split sep s)

/-- `s.split(sep, 1)` for a non-empty separator: one or two items (`XPath.splitOnce` finds the first occurrence) -/
def split1L (sep s : Str) : List Str :=
  match XPath.splitOnce sep s with
  | none => [s]
  | some (a, b) => [a, b]

/-- `s.split(sep, 1)`: `ValueError` for the empty separator -/
def split1E (sep s : Str) : Except PyErr (List Str) :=
  if sep.isEmpty then .error .ValueError else .ok (split1L sep s)

/-- `int(s)` of a str: `XPath.pyInt` (sign, ASCII digits, single underscores, surrounding white space) or
`ValueError`; text with a character >= 128 (other Unicode digits) is outside the modelled scope -/
def pyIntE (s : Str) : Except PyErr Int :=
  if s.any (fun c => c.toNat ≥ 128) then .error .Unsupported
  else match XPath.pyInt s with
    | some i => .ok i
    | none => .error .ValueError

/-- `float(s)` of a str has no value in this model: a text with a character that no float literal contains raises
`ValueError`, every other text is outside the modelled scope (`XPath.floatish`) -/
def pyFloatE (s : Str) : Except PyErr Int :=
  if s.all XPath.floatish then .error .Unsupported else .error .ValueError

/-- `urllib.parse.unquote(s)`: the identity on text without '%'; text with '%' is outside the modelled scope -/
def unquoteE (s : Str) : Except PyErr Str :=
  if XPath.hasPercent s then .error .Unsupported else .ok s
"""

# (source file, python function, lean name, parameter types, result type, externs, nested functions)
SPECS = [
    (SRC_EVAL, "n0eval", "n0eval", {"_str": "str"}, EVAL_RES, {},
     {"my_split": ("mySplit", ["str", "str"], t_list("str"))}),
    (SRC_SPLIT, "split_name_index", "splitNameIndex", {"node_name": "str"}, ("tuple", ["str", IDX]),
     {"urllib__parse__unquote": ("urllib.parse", "unquote", "unquoteE", ["str"], "str")}, {}),
]


def translate_function(tree, pyname, lean_name, spec, ret, externs, nested):
    fn = base.find_function(tree, pyname)
    tr = XpTranslator(fn, lean_name, spec, ret, externs, nested, module=tree)
    try:
        text = tr.translate()
    except RecursionError:
        raise TranslateError("%s: nesting too deep" % pyname)
    except NeedsControlFlow:
        raise TranslateError("%s: and/or with an operand that may raise, outside an `if` test" % pyname)
    except (KeyError, IndexError, AttributeError, TypeError, ValueError) as e:  # a construct the translator does not expect
        raise TranslateError("%s: construct outside the subset (%s: %s)" % (pyname, type(e).__name__, e))
    return text, tr.legend


def translate_sources(srcs):
    """srcs: {relative path: text} -> (Lean text, legend)"""
    parts, legend = [PRELUDE], {}
    trees = {}
    for path, text in srcs.items():
        try:
            trees[path] = ast.parse(text, path)
        except SyntaxError as e:
            raise TranslateError("%s does not parse: %s" % (path, e))
    for path, pyname, lean_name, spec, ret, externs, nested in SPECS:
        text, lg = translate_function(trees[path], pyname, lean_name, spec, ret, externs, nested)
        parts.append("/-! ### `%s` (%s) -/\n\n%s\n" % (pyname, path.replace(os.sep, "/"), text))
        legend[lean_name] = lg
    out = "\n".join(parts) + "\nend N0.Gen.XPathPrim\n"
    if out.count("\n") > MAX_OUTPUT_LINES:
        raise TranslateError("generated text has %d lines (limit %d)" % (out.count("\n"), MAX_OUTPUT_LINES))
    return out, legend


def read_sources(repo):
    srcs = {}
    for rel in (SRC_EVAL, SRC_SPLIT):
        try:
            srcs[rel] = open(os.path.join(repo, rel), encoding="utf-8").read()
        except OSError as e:
            raise TranslateError("cannot read %s: %s" % (rel, e))
    return srcs


def regenerate(repo):
    """rewrite Gen/XPathPrim.lean (only when the text changes); returns (legend, changed, differs_from_baseline)"""
    text, legend = translate_sources(read_sources(repo))
    changed = base.write_if_changed(OUT, text)
    b = open(BASELINE, encoding="utf-8").read() if os.path.exists(BASELINE) else None
    return legend, changed, (b is not None and b != text)


def restore_baseline():
    if os.path.exists(BASELINE):
        return base.write_if_changed(OUT, open(BASELINE, encoding="utf-8").read())
    return False



# ----------------------------------------------------------------------------------------------
# self-test of the constructs this translator adds: small functions are translated, evaluated by Lean (`#eval`) and
# compared with CPython on the same arguments (development tool, `--selftest`)
# ----------------------------------------------------------------------------------------------
SELFTEST_SRC = r"""
from urllib.parse import unquote as uq

def t_comp(s, d):
    return [(d if d != '+' and i else "") + p.strip() for i, p in enumerate(s.split(d)) if p.strip()]

def t_comp2(s):
    return [x.lower() + '.' for x in s.split(',')]

def t_comp3(s, t):
    return [c + c for c in s if c not in t if c != 'z']

def t_unpack(s, d):
    a, b = s.split(d, 1)
    return b, a.strip()

def t_forelse(s, ops):
    for op in ops:
        if op in s:
            k, v = s.split(op, 1)
            if op == '=':
                op = '=='
            break
    else:
        raise SyntaxError("no operator")
    return k + '<' + op + '>' + v

def t_try(items):
    total = 0
    for it in items:
        if it == "stop":
            return "stopped"
        if it == "last()":
            it = -1
        else:
            try:
                if '.' in it:
                    it = float(it)
                else:
                    it = int(it)
            except Exception:
                return "bad"
        total += it
    return total

def t_slice(s, a, b):
    return s[a:b] + '|' + s[1:-1] + '|' + s[:b] + '|' + s[a:] + '|' + s[2:-1].strip()

def t_none(s):
    r = None
    if s.startswith('x') and s.endswith('y'):
        r = (s[1:], len(s))
    else:
        q = None
    return s.lower(), (r if r is not None else q)

def t_chain(s):
    return s[3:-1].strip().split('(', 1)[1].split(',', 1)

def t_nested(s):
    def pieces(text, sep):
        return [sep + p for p in text.split(sep) if p]
    out = []
    seps = ("+", "-", "2")
    for sep in seps:
        got = pieces(s, sep)
        out.extend(got)
    return out

def t_join(s):
    flag: bool = False
    v = s.strip()
    if v.lower() == "true()":
        flag = True
    elif v.startswith("'") and v.endswith("'"):
        v = v[1:-1]
        v = uq(v)
    n = 0
    if flag:
        n = 1
        v = v + '!'
    return v, n

def t_brk(items, stop):
    seen = []
    where = -1
    for i, it in enumerate(items):
        if it == stop:
            where = i
            break
        if not it:
            continue
        seen.append(it.replace(" ", ""))
    else:
        seen.append("<end>")
    return seen, where
"""

ST_IS = Union("IS", [("int", "IS.int"), ("str", "IS.str")])
ST_OPT = Union("OptP", [("none", "OptP.none"), (("tuple", ["str", "int"]), "OptP.some")])
SELFTEST_CASES = [
    ("t_comp", {"s": "str", "d": "str"}, t_list("str"), [("1+2+ 3", "+"), ("a- b -c", "-"), (" - 1", "-"), ("", "+"), ("abc", ""), ("a::b:: ::c", "::"), ("\t1 - \x1f", "-")]),
    ("t_comp2", {"s": "str"}, t_list("str"), [("A,b,,C d",), ("",), (",",)]),
    ("t_comp3", {"s": "str", "t": "str"}, t_list("str"), [("abzcd", "b"), ("", "x"), ("zzz", ""), ("abc", "abc")]),
    ("t_unpack", {"s": "str", "d": "str"}, ("tuple", ["str", "str"]), [("a[b[c", "["), ("abc", "["), ("abc", ""), (" k == v", "=="), ("==", "=="), ("a=", "=")]),
    ("t_forelse", {"s": "str", "ops": ("list", "str")}, "str", [("a!=b", ["==", "!=", "="]), ("a=b=c", ["==", "!=", "="]), ("ab", ["==", "="]), ("a==b", []), ("a~b", ["~", "="]), ("x", ["", "="])]),
    ("t_try", {"items": ("list", "str")}, ST_IS, [(["1", "2", " 3 "],), (["1", "stop", "x"],), (["1", "x", "stop"],), ([],), (["-4", "last()", "+1_0"],), (["1.x"],), (["1", "1.5"],), (["1__0"],)]),
    ("t_slice", {"s": "str", "a": "int", "b": "int"}, "str", [("abcdef", 1, 4), ("abcdef", -3, -1), ("abcdef", 4, 2), ("abcdef", -10, 10), ("", 0, 0), ("ab", 1, -1), ("a b c ", 0, -2), ("abcdef", 8, -1)]),
    ("t_none", {"s": "str"}, ("tuple", ["str", ST_OPT]), [("xAy",), ("xA",), ("",), ("xy",)]),
    ("t_chain", {"s": "str"}, t_list("str"), [("fn (a,b,c))",), ("fn a,b)",), ("fn (ab)",), ("",), ("abc( x ,)",)]),
    ("t_nested", {"s": "str"}, t_list("str"), [("1+2-3",), ("",), ("+-",)]),
    ("t_join", {"s": "str"}, ("tuple", ["str", "int"]), [(" True() ",), ("'ab'",), ("'",), ("x",), ("'a%41'",), ("''",)]),
    ("t_brk", {"items": ("list", "str"), "stop": "str"}, ("tuple", [t_list("str"), "int"]), [(["a b", "", "c", "S", "d"], "S"), (["a", "b"], "S"), ([], "S"), (["S"], "S")]),
]
SELFTEST_EXTERNS = {"t_join": {"uq": ("urllib.parse", "unquote", "unquoteE", ["str"], "str")}}
SELFTEST_NESTED = {"t_nested": {"pieces": ("pieces", ["str", "str"], t_list("str"))}}


def _enc(v):
    if v is None:
        return "N"
    if isinstance(v, bool):
        return "B%d" % v
    if isinstance(v, int):
        return "I%d" % v
    if isinstance(v, str):
        return "S" + ".".join(str(ord(c)) for c in v)
    if isinstance(v, list):
        return "L[" + " ".join(_enc(x) for x in v) + "]"
    if isinstance(v, tuple):
        return "T(" + " ".join(_enc(x) for x in v) + ")"
    raise ValueError(v)


def _lean_arg(v):
    if isinstance(v, str):
        return lean_str(v)
    if isinstance(v, int):
        return "(%d : Int)" % v if v >= 0 else "(-%d : Int)" % -v
    if isinstance(v, list):
        return "([" + ", ".join(_lean_arg(x) for x in v) + "] : List Str)"
    raise ValueError(v)


SELFTEST_ENC = """
inductive IS | int (i : Int) | str (s : Str)
inductive OptP | none | some (a : Str) (b : Int)
class Enc (α : Type) where enc : α → String
def encS (s : Str) : String := "S" ++ String.intercalate "." (s.map (fun c => toString c.toNat))
instance : Enc Str := ⟨encS⟩
instance : Enc Int := ⟨fun i => "I" ++ toString i⟩
instance {α : Type} [Enc α] : Enc (List α) := ⟨fun l => "L[" ++ String.intercalate " " (l.map Enc.enc) ++ "]"⟩
instance {α β : Type} [Enc α] [Enc β] : Enc (α × β) := ⟨fun p => "T(" ++ Enc.enc p.1 ++ " " ++ Enc.enc p.2 ++ ")"⟩
instance : Enc IS := ⟨fun | .int i => Enc.enc i | .str s => Enc.enc s⟩
instance : Enc OptP := ⟨fun | .none => "N" | .some a b => Enc.enc (a, b)⟩
def showR {α : Type} [Enc α] : Except PyErr α → String
  | .ok v => "ok " ++ Enc.enc v
  | .error e => "err " ++ e.name
"""


def selftest():
    import subprocess
    import tempfile

    tree = ast.parse(SELFTEST_SRC)
    ns = {}
    exec(compile(tree, "<selftest>", "exec"), ns)
    parts = [PRELUDE.replace("N0.Gen.XPathPrim", "N0.Gen.XpSelfTest"), SELFTEST_ENC]
    expected = []
    for name, spec, ret, cases in SELFTEST_CASES:
        tr_ = XpTranslator(base.find_function(tree, name), name, spec, ret, SELFTEST_EXTERNS.get(name), SELFTEST_NESTED.get(name), module=tree)
        parts.append(tr_.translate() + "\n")
        for args in cases:
            try:
                want = "ok " + _enc(ns[name](*args))
            except Exception as e:  # noqa
                want = "err " + type(e).__name__
            expected.append((name, args, want))
            parts.append("#eval showR (%s %s)" % (name, " ".join(_lean_arg(a) for a in args)))
    parts.append("end N0.Gen.XpSelfTest\n")
    with tempfile.NamedTemporaryFile("w", suffix=".lean", delete=False, encoding="utf-8") as f:
        f.write("\n".join(parts))
        path = f.name
    p = subprocess.run(["lake", "env", "lean", path], cwd=os.path.join(HERE, "lean"), stdout=subprocess.PIPE, stderr=subprocess.STDOUT, text=True)
    got = [l.strip().strip('"') for l in p.stdout.split("\n") if l.strip().startswith('"')]
    if p.returncode != 0 or len(got) != len(expected):
        print(p.stdout[-3000:])
        print("selftest: Lean did not evaluate the translated functions (%d answers for %d cases); file %s" % (len(got), len(expected), path))
        return 1
    bad = skipped = 0
    for (name, args, want), g in zip(expected, got):
        if g == "err Unsupported":
            skipped += 1  # outside the modelled scope (float text, '%' in unquote)
        elif want != g:
            bad += 1
            print("selftest MISMATCH %s%r: python %s, lean %s" % (name, args, want, g))
    print("selftest: %d cases, %d mismatches, %d outside the modelled scope (translated text: %s)" % (len(expected), bad, skipped, path))
    return 1 if bad else 0


# ----------------------------------------------------------------------------------------------
# development tool: harmless refactorings of the two functions must still translate, and the equality theorems must
# still hold for the regenerated text (`--refactorings [repo]`; rewrites and restores Gen/XPathPrim.lean)
# ----------------------------------------------------------------------------------------------
REFACTORINGS = {
    "rename-locals": [("node_index_str", "idx_text"), ("node_index_tuple", "cond"), ("node_index_part1", "fn_arg"), ("node_index_part2", "needle"),
                      ("expected_node_name", "lhs"), ("expected_value_bool", "as_bool"), ("expected_value", "rhs"), ("delimiters", "table"),
                      ("first_split", "plus_parts"), ("second_split", "terms"), ("itm", "piece"), ("_delimiter", "sep"), ("result", "acc"),
                      ("for item in", "for term in"), ("item ==", "term =="), ("item = ", "term = "), ("in item:", "in term:"), ("(item)", "(term)"),
                      ("(item,", "(term,"), ("+= item", "+= term"), ("items", "pieces")],
    "swap-independent-assignments": [
        ("        node_name = node_name.strip()\n        node_index_str = node_index_str.strip()\n", "        node_index_str = node_index_str.strip()\n        node_name = node_name.strip()\n"),
        ("                        expected_node_name = expected_node_name.strip()\n                        expected_value = expected_value.strip()\n",
         "                        expected_value = expected_value.strip()\n                        expected_node_name = expected_node_name.strip()\n"),
        ("    first_split = my_split(_str, '+')\n    second_split = []\n", "    second_split = []\n    first_split = my_split(_str, '+')\n")],
    "elif-to-else-if": [
        ("                elif expected_value.lower() == \"false()\":\n                    expected_value_bool = False\n                elif (expected_value.startswith",
         "                else:\n                  if expected_value.lower() == \"false()\":\n                    expected_value_bool = False\n                  elif (expected_value.startswith")],
    "if-if-to-elif": [("                        if delimiter == '~':\n", "                        elif delimiter == '~':\n")],
    "no-extend-local": [("        items = my_split(item, '-')\n        second_split.extend(items)\n", "        second_split.extend(my_split(item, '-'))\n")],
    "plus-equals-lists": [("        second_split.extend(items)\n", "        second_split += items\n")],
    "last-as-else-if": [("        if item == \"last()\":\n            item = -1\n        else:\n            try:", "        if item == \"last()\":\n            item = 0 - 1\n        else:\n            try:")],
    "result-plus": [("        result += item\n", "        result = result + item\n")],
    "strip-once-in-comprehension": [("    _str = _str.replace(\" \",\"\").lower()\n", "    _str = _str.replace(\" \",\"\")\n    _str = _str.lower()\n")],
    "split-unpack-via-local": [("        node_name, node_index_str = node_name[:-1].split('[', 1)\n", "        inner = node_name[:-1]\n        node_name, node_index_str = inner.split('[', 1)\n")],
    "not-none-test-flipped": [("(node_index_tuple if node_index_tuple is not None else node_index_str)", "(node_index_str if node_index_tuple is None else node_index_tuple)")],
    "bool-local-instead-of-none": [("expected_value if expected_value_bool is None else expected_value_bool)", "expected_value_bool if expected_value_bool is not None else expected_value)")],
    "truthiness-style": [("        if node_index_str:\n", "        if len(node_index_str) != 0:\n"), ("    if not _str:\n", "    if _str == \"\":\n")],
    "early-return-instead-of-else": [("    else:\n        node_index_str = None\n    return node_name,", "    else:\n        return node_name, None\n    return node_name,")],
    "table-as-list": [("delimiters = (\"==\",\"!=\",\"~~\",\"!~\",\"~\",\"=\")", "delimiters = [\"==\", \"!=\", \"~~\", \"!~\", \"~\", \"=\"]")],
}


def apply_edits(srcs, pairs):
    out = dict(srcs)
    for a, b in pairs:
        hit = False
        for rel in out:
            if a in out[rel]:
                out[rel] = out[rel].replace(a, b)
                hit = True
        if not hit:
            return None, a
    return out, None


def lake_props():
    import subprocess

    p = subprocess.run(["lake", "build", "N0Verif.Props.C01"], cwd=os.path.join(HERE, "lean"), stdout=subprocess.PIPE, stderr=subprocess.STDOUT, text=True)
    errs = [l[:160] for l in p.stdout.split("\n") if l.startswith("error: N0Verif")]
    return p.returncode, errs


def refactorings(repo):
    srcs = read_sources(repo)
    base_text, _ = translate_sources(srcs)
    worst = 0
    try:
        for name, pairs in REFACTORINGS.items():
            if name == "rename-locals":
                # only inside the two functions (the files define other functions using the same words)
                new = dict(srcs)
                for rel, fn in ((SRC_EVAL, "n0eval"), (SRC_SPLIT, "split_name_index")):
                    text = new[rel]
                    i = text.index("def %s(" % fn)
                    j = text.index("\n# ***", i)
                    body = text[i:j]
                    for a, b in pairs:
                        body = body.replace(a, b)
                    new[rel] = text[:i] + body + text[j:]
                missing = None
            else:
                new, missing = apply_edits(srcs, pairs)
            if new is None:
                print("%-32s does not apply to this source (%r not found)" % (name, missing[:50]))
                worst = 1
                continue
            for rel in new:
                try:
                    compile(new[rel], rel, "exec")
                except SyntaxError as e:
                    print("%-32s the refactored source does not compile: %s" % (name, e))
                    new = None
                    break
            if new is None:
                worst = 1
                continue
            try:
                lean, _ = translate_sources(new)
            except TranslateError as e:
                print("%-32s TranslateError: %s" % (name, e))
                worst = 1
                continue
            if lean == base_text:
                print("%-32s identical Lean text" % name)
                continue
            base.write_if_changed(OUT, lean)
            rc, errs = lake_props()
            print("%-32s text differs; equality theorems %s %s" % (name, "hold" if rc == 0 else "FAIL", errs[:2]))
            worst = worst or (1 if rc else 0)
    finally:
        base.write_if_changed(OUT, base_text)
        lake_props()
    return worst


if __name__ == "__main__":
    import sys

    if "--selftest" in sys.argv:
        sys.exit(selftest())
    args = [a for a in sys.argv[1:] if not a.startswith("--")]
    repo = args[0] if args else os.environ.get("VERIF_REPO", "/repo")
    if "--refactorings" in sys.argv:
        sys.exit(refactorings(repo))
    legend, changed, differs = regenerate(repo)
    if "--write-baseline" in sys.argv:
        os.makedirs(os.path.dirname(BASELINE), exist_ok=True)
        base.write_if_changed(BASELINE, open(OUT, encoding="utf-8").read())
        differs = False
    print("generated %s: changed=%s differs_from_baseline=%s" % (os.path.relpath(OUT, HERE), changed, differs))
    for fn, lg in legend.items():
        print(" ", fn, lg)
