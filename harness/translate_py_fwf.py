"""
Translator for two FRAGMENTS of n0struct/n0struct_files_fwf.py (C16): regenerates lean/N0Verif/Gen/FwfPy.lean on every
run of `./check C16`.  `Proofs/FwfGenEq.lean` proves the generated definitions equal to `Fwf.colValue` / `Fwf.place` of
`Model/Fwf.lean` (`C16_generated_fwf_*` in `Props/C16.lean`).

  * `parse_fwf_row`: in the loop `for column_name, column_format in fwf_format.items()`, the statements from the start of
    the body up to and including the first `if` (the slice computation: offset / width / till -> `incoming_row[offset:till]`);
    result: `column_value` (checked: not assigned again in the rest of the body);
  * `generate_fwf_row`: in the loop `for column_format in fwf_format`, the statements after the first `if` (which selects
    the value: record entry / mapping / `continue`) to the end of the body (the cell rendering: `str()`, `zfill`/`ljust`,
    truncation, splice into `rendered_row`); result: `rendered_row`.

The rest of the two functions (eval of validations / mappings, dict handling, the loops) stays tied by the differential
streams only.  `column_format.get('<key>')` and `column_format['<key>']` become parameters (`g<i>`): `.get` of offset /
width / till is an `int` or `None`, of `type` a `str` or `None`; `[...]` of size / offset / till an `int` (the scope of the
model: keys present, natural numbers).  Statement / expression subset: the one of harness/translate_py_tlvgen.py plus
`None`, `is None` / `is not None`, `==` of an optional str with a str, `+` (of two `int | None`: TypeError on None; of two
str), slices `s[a:b]` / `s[:b]` / `s[a:]` with `int | None` bounds, `s.zfill(n)`, `s.ljust(n)`, `s.rjust(n)`, `str()` of a record value
(`Fwf.pyStr`).  Anything else raises TranslateError (broken tie), never stale text.
"""
import ast
import os

from harness import translate_py_csv as base
from harness.translate_py_csv import TranslateError, indent
from harness import translate_py_tlvgen as w

HERE = os.path.dirname(os.path.dirname(os.path.abspath(__file__)))
OUT = os.path.join(HERE, "lean", "N0Verif", "Gen", "FwfPy.lean")
BASELINE = os.path.join(HERE, "harness", "baselines", "FwfPy.lean.txt")
SRC = os.path.join("n0struct", "n0struct_files_fwf.py")

LEAN_TY = dict(w.LEAN_TY, opt_int="Option Int", opt_str="Option Str", val="Val")
w.LEAN_TY.update(LEAN_TY)
BASE_OF = {"opt_int": "int", "opt_str": "str"}
GET_KEYS = {"offset": "opt_int", "width": "opt_int", "till": "opt_int", "type": "opt_str"}
IDX_KEYS = {"size": "int", "offset": "int", "till": "int"}


class FragTranslator(w.WriterTranslator):
    def __init__(self, label, fmtvar, declared):
        super().__init__(None, {})
        self.label = label
        self.fmtvar = fmtvar
        self.declared = declared  # types of locals fixed in advance
        self.params = []          # (lean name, type, python text)

    def err(self, node, what):
        return TranslateError("%s line %d: %s" % (self.label, getattr(node, "lineno", 0), what))

    def param(self, text, ty):
        for n, t, p in self.params:
            if p == text:
                return n, t
        n = "g%d" % len(self.params)
        self.params.append((n, ty, text))
        self.legend[n] = text
        return n, ty

    def fmt_access(self, e):
        """column_format.get('<key>') / column_format['<key>'] -> a parameter"""
        if (isinstance(e, ast.Call) and isinstance(e.func, ast.Attribute) and e.func.attr == "get" and isinstance(e.func.value, ast.Name)
                and e.func.value.id == self.fmtvar and len(e.args) == 1 and not e.keywords and isinstance(e.args[0], ast.Constant)):
            key = e.args[0].value
            if key not in GET_KEYS:
                raise self.err(e, "%s.get(%r): key outside the subset" % (self.fmtvar, key))
            return self.param("%s.get(%r)" % (self.fmtvar, key), GET_KEYS[key])
        if (isinstance(e, ast.Subscript) and isinstance(e.value, ast.Name) and e.value.id == self.fmtvar and isinstance(e.slice, ast.Constant)):
            key = e.slice.value
            if key not in IDX_KEYS:
                raise self.err(e, "%s[%r]: key outside the subset" % (self.fmtvar, key))
            return self.param("%s[%r]" % (self.fmtvar, key), IDX_KEYS[key])
        return None

    def pure(self, e, env):
        if isinstance(e, ast.Constant) and e.value is None:
            return "none", "none"
        p = self.fmt_access(e)
        if p is not None:
            return p
        if isinstance(e, (ast.BinOp, ast.Subscript)):
            return None
        if isinstance(e, ast.Call) and isinstance(e.func, ast.Name) and e.func.id == "str" and len(e.args) == 1 and not e.keywords:
            a = self.pure(e.args[0], env)
            if a is None or a[1] == "val":
                return None
        if isinstance(e, ast.Compare) and len(e.ops) == 1 and isinstance(e.ops[0], (ast.Is, ast.IsNot)):
            c = e.comparators[0]
            if not (isinstance(c, ast.Constant) and c.value is None):
                raise self.err(e, "`is` with something other than None")
            a = self.pure(e.left, env)
            if a is None:
                raise self.err(e, "`is None` of an expression that may raise")
            isnone = isinstance(e.ops[0], ast.Is)
            if a[1] in BASE_OF:
                return "(Option.%s %s)" % ("isNone" if isnone else "isSome", a[0]), "bool"
            if a[1] == "none":
                return ("true" if isnone else "false"), "bool"
            if a[1] in ("int", "str", "bool"):
                return ("false" if isnone else "true"), "bool"
            raise self.err(e, "`is None` of a %s" % a[1])
        return super().pure(e, env)

    def compare(self, e, a, b):
        op = e.ops[0]
        if a[1] == "opt_str" and b[1] == "str" and isinstance(op, (ast.Eq, ast.NotEq)):
            return "(decide (%s %s some %s))" % (a[0], "=" if isinstance(op, ast.Eq) else "≠", b[0]), "bool"
        return super().compare(e, a, b)

    def as_opt_int(self, e, v):
        if v[1] == "opt_int":
            return v[0]
        if v[1] == "int":
            return "(some %s)" % v[0]
        if v[1] == "none":
            return "none"
        raise self.err(e, "a %s where an int or None is expected" % v[1])

    def cps(self, e, env, k):
        if isinstance(e, ast.BinOp):
            if not isinstance(e.op, ast.Add):
                raise self.err(e, "operator %s" % type(e.op).__name__)

            def after(vs):
                (a, at), (b, bt) = vs
                if at == bt == "str":
                    return k("(%s ++ %s)" % (a, b), "str")
                if at == bt == "int":
                    return k("(%s + %s)" % (a, b), "int")
                if {at, bt} <= {"int", "opt_int", "none"}:
                    return self.bind("pyAddO %s %s" % (self.as_opt_int(e, vs[0]), self.as_opt_int(e, vs[1])), "int", k)
                raise self.err(e, "+ of %s and %s" % (at, bt))
            return self.many([e.left, e.right], env, after)
        if isinstance(e, ast.Subscript) and self.fmt_access(e) is None:
            sl = e.slice
            if not isinstance(sl, ast.Slice) or sl.step is not None:
                raise self.err(e, "subscript other than a slice without step")
            parts = [e.value] + [b for b in (sl.lower, sl.upper) if b is not None]

            def after(vs):
                if vs[0][1] != "str":
                    raise self.err(e, "slice of a %s" % vs[0][1])
                rest = list(vs[1:])
                lo = self.as_opt_int(e, rest.pop(0)) if sl.lower is not None else "none"
                hi = self.as_opt_int(e, rest.pop(0)) if sl.upper is not None else "none"
                return k("(sliceO %s %s %s)" % (vs[0][0], lo, hi), "str")
            return self.many(parts, env, after)
        if isinstance(e, ast.Call) and isinstance(e.func, ast.Attribute) and e.func.attr in ("zfill", "ljust", "rjust") and len(e.args) == 1 and not e.keywords:
            def after(vs):
                if [t for _, t in vs] != ["str", "int"]:
                    raise self.err(e, "%s of (%s)" % (e.func.attr, ", ".join(t for _, t in vs)))
                if e.func.attr == "zfill":
                    return k("(N0.Fwf.zfill (Int.toNat %s) %s)" % (vs[1][0], vs[0][0]), "str")
                return k("(%s (Int.toNat %s) ' ' %s)" % (e.func.attr, vs[1][0], vs[0][0]), "str")
            return self.many([e.func.value, e.args[0]], env, after)
        if isinstance(e, ast.Call) and isinstance(e.func, ast.Name) and e.func.id == "str" and len(e.args) == 1 and not e.keywords:
            def after(t, ty):
                if ty == "val":
                    return self.bind("N0.Fwf.pyStr %s" % t, "str", k)
                if ty == "str":
                    return k(t, ty)
                if ty == "int":
                    return k("(pyStrInt %s)" % t, "str")
                raise self.err(e, "str() of a %s" % ty)
            return self.cps(e.args[0], env, after)
        return super().cps(e, env, k)

    def block(self, stmts, env, k):
        if stmts and isinstance(stmts[0], ast.Assign) and len(stmts[0].targets) == 1 and isinstance(stmts[0].targets[0], ast.Name):
            s, rest = stmts[0], stmts[1:]
            name = s.targets[0].id
            if name == self.fmtvar:
                raise self.err(s, "assignment to %r" % name)

            def after(t, ty):
                want = self.declared.get(name) or (env[name][1] if name in env and env[name][1] in BASE_OF else None)
                if want is not None:
                    if ty == BASE_OF[want]:
                        t, ty = "(some %s)" % t, want
                    elif ty == "none":
                        t, ty = "none", want
                    elif ty != want:
                        raise self.err(s, "%r : %s is assigned a %s" % (name, want, ty))
                elif ty == "none":
                    raise self.err(s, "None assigned to %r whose type is not declared" % name)
                x = self.fresh_local(name)
                return "let %s : %s := %s\n%s" % (x, LEAN_TY[ty], t, self.block(rest, dict(env, **{name: (x, ty)}), k))
            return self.cps(s.value, env, after)
        return super().block(stmts, env, k)


def find_loop(fn, label, pred):
    loops = [s for s in fn.body if isinstance(s, ast.For) and pred(s)]
    if len(loops) != 1 or loops[0].orelse:
        raise TranslateError("%s: expected exactly one loop of the expected form at the top level, found %d" % (label, len(loops)))
    return loops[0]


def stores(stmts, name):
    return any(isinstance(n, ast.Name) and n.id == name and isinstance(n.ctx, (ast.Store, ast.Del)) for s in stmts for n in ast.walk(s))


def no_jumps(stmts, label):
    for s in stmts:
        for n in ast.walk(s):
            if isinstance(n, (ast.Continue, ast.Break, ast.Return, ast.Yield, ast.YieldFrom, ast.For, ast.While, ast.Lambda, ast.NamedExpr, ast.Global, ast.Nonlocal)):
                raise TranslateError("%s line %d: %s inside the translated fragment" % (label, getattr(n, "lineno", 0), type(n).__name__))


def translate_parse(tree):
    label = "parse_fwf_row"
    fn = base.find_function(tree, label)
    if [a.arg for a in fn.args.args][:2] != ["incoming_row", "fwf_format"]:
        raise TranslateError("parse_fwf_row: parameters changed")

    def pred(s):
        return (isinstance(s.target, ast.Tuple) and len(s.target.elts) == 2 and all(isinstance(x, ast.Name) for x in s.target.elts)
                and isinstance(s.iter, ast.Call) and isinstance(s.iter.func, ast.Attribute) and s.iter.func.attr == "items"
                and isinstance(s.iter.func.value, ast.Name) and s.iter.func.value.id == "fwf_format")
    loop = find_loop(fn, label, pred)
    fmtvar = loop.target.elts[1].id
    ifs = [i for i, s in enumerate(loop.body) if isinstance(s, ast.If)]
    if not ifs:
        raise TranslateError("parse_fwf_row: no `if` in the loop body")
    frag, rest = loop.body[: ifs[0] + 1], loop.body[ifs[0] + 1:]
    no_jumps(frag, label)
    if stores(rest, "column_value") or stores(rest, "incoming_row") or stores(frag, "incoming_row"):
        raise TranslateError("parse_fwf_row: column_value / incoming_row is assigned outside the translated fragment")
    if not any(isinstance(n, ast.Name) and n.id == "column_value" for s in rest for n in ast.walk(s)):
        raise TranslateError("parse_fwf_row: column_value is not used after the translated fragment")
    tr = FragTranslator(label, fmtvar, {"column_value": "opt_str"})
    env = {"incoming_row": ("a0", "str")}
    tr.legend["a0"] = "incoming_row"

    def fin(e2):
        if "column_value" not in e2 or e2["column_value"][1] != "opt_str":
            raise TranslateError("parse_fwf_row: column_value is not assigned on every path of the fragment")
        return ".ok %s" % e2["column_value"][0]
    body = tr.block(list(frag), env, fin)
    want = ["%s.get('offset')" % fmtvar, "%s.get('width')" % fmtvar, "%s.get('till')" % fmtvar]
    if sorted(p for _, _, p in tr.params) != sorted(want):
        raise TranslateError("parse_fwf_row: the fragment reads %s of the layout, expected %s" % ([p for _, _, p in tr.params], want))
    order = {p: i for i, p in enumerate(want)}
    ps = sorted(tr.params, key=lambda x: order[x[2]])
    sig = " (a0 : Str)" + "".join(" (%s : %s)" % (n, LEAN_TY[t]) for n, t, _ in ps)
    return "def ParseFwfRow.colValue%s : Except PyErr (Option Str) :=\n%s" % (sig, indent(body)), tr.legend


def translate_generate(tree):
    label = "generate_fwf_row"
    fn = base.find_function(tree, label)

    def pred(s):
        return isinstance(s.target, ast.Name) and isinstance(s.iter, ast.Name) and s.iter.id == "fwf_format"
    loop = find_loop(fn, label, pred)
    fmtvar = loop.target.id
    ifs = [i for i, s in enumerate(loop.body) if isinstance(s, ast.If)]
    if not ifs:
        raise TranslateError("generate_fwf_row: no `if` in the loop body")
    frag = loop.body[ifs[0] + 1:]
    sel = loop.body[ifs[0]]
    if not frag or not stores([sel], "column_value") or stores([sel], "rendered_row"):
        raise TranslateError("generate_fwf_row: the first `if` of the loop body does not select column_value")
    no_jumps(frag, label)
    if not stores(frag, "rendered_row"):
        raise TranslateError("generate_fwf_row: the fragment does not assign rendered_row")
    tr = FragTranslator(label, fmtvar, {})
    env = {"rendered_row": ("a0", "str"), "column_value": ("a1", "val")}
    tr.legend.update(a0="rendered_row", a1="column_value")

    def fin(e2):
        if e2["rendered_row"][1] != "str":
            raise TranslateError("generate_fwf_row: rendered_row is not a str")
        return ".ok %s" % e2["rendered_row"][0]
    body = tr.block(list(frag), env, fin)
    want = ["%s['size']" % fmtvar, "%s['offset']" % fmtvar, "%s['till']" % fmtvar, "%s.get('type')" % fmtvar]
    if sorted(p for _, _, p in tr.params) != sorted(want):
        raise TranslateError("generate_fwf_row: the fragment reads %s of the layout, expected %s" % ([p for _, _, p in tr.params], want))
    order = {p: i for i, p in enumerate(want)}
    ps = sorted(tr.params, key=lambda x: order[x[2]])
    sig = " (a0 : Str) (a1 : Val)" + "".join(" (%s : %s)" % (n, LEAN_TY[t]) for n, t, _ in ps)
    return "def GenerateFwfRow.place%s : Except PyErr Str :=\n%s" % (sig, indent(body)), tr.legend


PRELUDE = """-- GENERATED by harness/translate_py_fwf.py from n0struct/n0struct_files_fwf.py; do not edit
import N0Verif.Py.Basic
import N0Verif.Model.Fwf
/-!
  Lean definitions regenerated on every run of `./check C16` from two fragments of the Python source: the slice
  computation of `parse_fwf_row` (`ParseFwfRow.colValue`) and the cell rendering of `generate_fwf_row`
  (`GenerateFwfRow.place`).  `Proofs/FwfGenEq.lean` proves them equal to `Fwf.colValue` / `Fwf.place`.
  `a<i>`: variables the fragment starts from, `g<i>`: what it reads of the column layout, `x<i>` locals, `t<i>` values of
  expressions that may raise.  `str()` of a record value is `Fwf.pyStr`.
-/
set_option linter.unusedVariables false
namespace N0.Gen.FwfPy
open N0 N0.Py

/-! ### run-time support of the translated subset -/

/-- a slice bound as Python normalises it (negative: counted from the end, not below 0) -/
def normBound (len : Nat) (x : Int) : Nat := if x < 0 then (x + Int.ofNat len).toNat else x.toNat

/-- `s[a:b]`, a bound that is absent or `None` is the start / the end -/
def sliceO {α : Type} (s : List α) (a b : Option Int) : List α :=
  let lo := match a with | none => 0 | some x => normBound s.length x
  let hi := match b with | none => s.length | some x => normBound s.length x
  (s.drop lo).take (hi - lo)

/-- `a + b` of two `int | None`: `TypeError` when one of them is `None` -/
def pyAddO (a b : Option Int) : Except PyErr Int :=
  match a, b with
  | some x, some y => .ok (x + y)
  | _, _ => .error .TypeError

/-- `str(n)` of an int -/
def pyStrInt (n : Int) : Str := if n < 0 then '-' :: Nat.toDigits 10 n.natAbs else Nat.toDigits 10 n.toNat
"""


def translate_source(src_text, filename="<src>"):
    try:
        tree = ast.parse(src_text, filename)
    except SyntaxError as e:
        raise TranslateError("source does not parse: %s" % e)
    p, pl = translate_parse(tree)
    g, gl = translate_generate(tree)
    out = PRELUDE + "\n/-! ### `parse_fwf_row`: the value of one column -/\n\n" + p + "\n\n/-! ### `generate_fwf_row`: one column written into the row -/\n\n" + g + "\n\nend N0.Gen.FwfPy\n"
    if out.count("\n") > base.MAX_OUTPUT_LINES:
        raise TranslateError("generated text too long")
    return out, {"ParseFwfRow.colValue": pl, "GenerateFwfRow.place": gl}


def regenerate(repo):
    path = os.path.join(repo, SRC)
    try:
        src = open(path, encoding="utf-8").read()
    except OSError as e:
        raise TranslateError("cannot read %s: %s" % (SRC, e))
    text, legend = translate_source(src, path)
    changed = base.write_if_changed(OUT, text)
    b = open(BASELINE, encoding="utf-8").read() if os.path.exists(BASELINE) else None
    return legend, changed, (b is not None and b != text)


def restore_baseline():
    if os.path.exists(BASELINE):
        return base.write_if_changed(OUT, open(BASELINE, encoding="utf-8").read())
    return False


if __name__ == "__main__":
    import sys

    args = [a for a in sys.argv[1:] if not a.startswith("--")]
    repo = args[0] if args else os.environ.get("VERIF_REPO", "/repo")
    legend, changed, differs = regenerate(repo)
    if "--write-baseline" in sys.argv:
        os.makedirs(os.path.dirname(BASELINE), exist_ok=True)
        base.write_if_changed(BASELINE, open(OUT, encoding="utf-8").read())
        differs = False
    print("generated %s: changed=%s differs_from_baseline=%s" % (os.path.relpath(OUT, HERE), changed, differs))
    print(" ", legend)
