#!/usr/bin/env python3
"""harness/addfixed.py Cnn Cnn-x <commit> <what failed>   -- record a repaired defect (main session only)"""
import json, sys
prop, fid, commit, what = sys.argv[1:5]
p = "/verif/known_findings/%s.json" % prop
d = json.load(open(p))
d["findings"] = [f for f in d.get("findings", []) if f.get("id") != fid]
d.setdefault("fixed", [])
d["fixed"] = [f for f in d["fixed"] if f.get("id") != fid]
d["fixed"].append({"property": prop, "id": fid, "commit": commit, "what_failed": "fixed: property=%s %s %s" % (prop, commit, what)})
json.dump(d, open(p, "w"), indent=1, ensure_ascii=False)
open(p, "a").write("\n")
