"""
Second translated piece of C17: the loop of `serialize_dict` that protects reserved characters (the scalar branch
`if not isinstance(input_dict, (dict, list, ...)):`).  Called by translate_py_esc.translate_source, emitted into the same
generated file (`Gen/EscPy.lean`, definitions `escBody` / `escapeLoop`); `Proofs/EscGenEq2.lean` proves
`escapeLoop s d eq = Esc.escapeValue (Esc.dangerous d eq) s` (`C17_generated_escape_eq`).

The translated region: inside the FIRST `if not isinstance(<first parameter>, …):` of `serialize_dict`, the statements after the
last top-level `if` of that block (the capitalisation) up to the `return`.  Inputs of the region: `in_buffer_str` (the text after
`str()` / capitalisation: a `Str`), `delimiter`, `equal_tag` (`Str`), and `buffer_str`, whose initial value is the str constant
assigned to it at the top level of the function in front of the block.

Subset: `x = e`, `x += e` (str), `if`/`else`, ONE `for ch in <str local>:` without break/continue/else whose body changes exactly
one str local that exists in front of it (the loop-carried buffer; `List.foldl`), `return <str>`.
Expressions: names, str / non-negative int constants, `+` on strs and chars, `ch in s`, `a < b` on ints, `ord(ch)`,
`a if t else b`, f-strings made of literal text and `{n:0Wx}` fields.  Anything else: TranslateError.
"""
import ast
import re

from harness.translate_py_csv import TranslateError, find_function

LEAN_TY = {"nat": "Nat", "str": "Str", "char": "Char", "bool": "Bool"}
INPUTS = [("in_buffer_str", "str"), ("delimiter", "str"), ("equal_tag", "str")]

PRELUDE2 = """
/-! ### run-time support of the second translated piece (the escaping loop of `serialize_dict`) -/

/-- one lower-case hexadecimal digit -/
def hexCh (n : Nat) : Char := if n < 10 then Char.ofNat (48 + n) else Char.ofNat (87 + n)

/-- the last `w` hexadecimal digits of `n` -/
def fmtHexFix : Nat → Nat → Str
  | 0, _ => []
  | w + 1, n => fmtHexFix w (n / 16) ++ [hexCh (n % 16)]

/-- `f"{n:0Wx}"`: at least `w` digits, padded with zeros (a number that needs more digits is written in full) -/
def fmtHex (w n : Nat) : Str := if n < 16 ^ w then fmtHexFix w n else Nat.toDigits 16 n
"""


def indent(text, n=2):
    return "\n".join((" " * n + l) if l else l for l in text.split("\n"))


def lean_char(c):
    o = ord(c)
    if 32 <= o < 127 and c not in "\\'":
        return "'%s'" % c
    if c == "\\":
        return "'\\\\'"
    if c == "'":
        return "'\\''"
    return "(Char.ofNat %d)" % o


def lean_str(s):
    return "[%s]" % ", ".join(lean_char(c) for c in s) if s else "([] : Str)"


class Tr2:
    def __init__(self):
        self.n = 0
        self.legend = {}

    def err(self, node, msg):
        raise TranslateError("serialize_dict (escaping loop) line %d: %s" % (getattr(node, "lineno", 0), msg))

    def fresh(self):
        self.n += 1
        return "y%d" % self.n

    def as_str(self, t, ty, node):
        if ty == "str":
            return t
        if ty == "char":
            return "[%s]" % t
        self.err(node, "a str is needed, found %s" % ty)

    def ex(self, e, env):
        if isinstance(e, ast.Name):
            if e.id not in env:
                self.err(e, "name %r may be unbound here (or is outside the region)" % e.id)
            return env[e.id]
        if isinstance(e, ast.Constant):
            if type(e.value) is int and e.value >= 0:
                return str(e.value), "nat"
            if type(e.value) is str:
                return lean_str(e.value), "str"
            self.err(e, "constant %r" % (e.value,))
        if isinstance(e, ast.BinOp) and isinstance(e.op, ast.Add):
            a, at = self.ex(e.left, env)
            b, bt = self.ex(e.right, env)
            if at in ("str", "char") and bt in ("str", "char"):
                return "(%s ++ %s)" % (self.as_str(a, at, e), self.as_str(b, bt, e)), "str"
            self.err(e, "+ on %s, %s" % (at, bt))
        if isinstance(e, ast.Compare) and len(e.ops) == 1:
            a, at = self.ex(e.left, env)
            b, bt = self.ex(e.comparators[0], env)
            if isinstance(e.ops[0], ast.In) and at == "char" and bt == "str":
                return "(List.contains %s %s)" % (b, a), "bool"
            if isinstance(e.ops[0], ast.Lt) and at == bt == "nat":
                return "(decide (%s < %s))" % (a, b), "bool"
            self.err(e, "comparison %s on %s, %s" % (type(e.ops[0]).__name__, at, bt))
        if isinstance(e, ast.Call) and isinstance(e.func, ast.Name) and e.func.id == "ord" and len(e.args) == 1 and not e.keywords:
            a, at = self.ex(e.args[0], env)
            if at != "char":
                self.err(e, "ord of a %s" % at)
            return "(Char.toNat %s)" % a, "nat"
        if isinstance(e, ast.IfExp):
            c, ct = self.ex(e.test, env)
            if ct != "bool":
                self.err(e, "truth value of a %s" % ct)
            a, at = self.ex(e.body, env)
            b, bt = self.ex(e.orelse, env)
            if at == bt:
                return "(if %s then %s else %s)" % (c, a, b), at
            if at in ("str", "char") and bt in ("str", "char"):
                return "(if %s then %s else %s)" % (c, self.as_str(a, at, e), self.as_str(b, bt, e)), "str"
            self.err(e, "conditional expression of types %s / %s" % (at, bt))
        if isinstance(e, ast.JoinedStr):
            parts = []
            for p in e.values:
                if isinstance(p, ast.Constant) and type(p.value) is str:
                    parts.append(lean_str(p.value))
                elif isinstance(p, ast.FormattedValue):
                    spec = p.format_spec
                    if not (p.conversion == -1 and isinstance(spec, ast.JoinedStr) and len(spec.values) == 1
                            and isinstance(spec.values[0], ast.Constant) and isinstance(spec.values[0].value, str)):
                        self.err(p, "f-string field without a constant format")
                    m = re.fullmatch(r"0([1-9][0-9]?)x", spec.values[0].value)
                    if not m:
                        self.err(p, "format %r is not 0<width>x" % spec.values[0].value)
                    v, vt = self.ex(p.value, env)
                    if vt != "nat":
                        self.err(p, "hexadecimal format of a %s" % vt)
                    parts.append("fmtHex %d %s" % (int(m.group(1)), v))
                else:
                    self.err(p, "f-string part outside the subset")
            if not parts:
                return lean_str(""), "str"
            return "(%s)" % " ++ ".join(parts), "str"
        self.err(e, "expression %s outside the subset" % type(e).__name__)

    def block(self, stmts, env, k):
        if not stmts:
            return k(env)
        s, rest = stmts[0], stmts[1:]
        if isinstance(s, (ast.Assign, ast.AugAssign)):
            if isinstance(s, ast.Assign):
                if len(s.targets) != 1 or not isinstance(s.targets[0], ast.Name):
                    self.err(s, "assignment target outside the subset")
                name = s.targets[0].id
                v, vt = self.ex(s.value, env)
            else:
                if not (isinstance(s.target, ast.Name) and isinstance(s.op, ast.Add)):
                    self.err(s, "augmented assignment other than `name += e`")
                name = s.target.id
                a, at = self.ex(s.target.__class__(id=name, ctx=ast.Load()), env)
                b, bt = self.ex(s.value, env)
                if at != "str" or bt not in ("str", "char"):
                    self.err(s, "+= on %s, %s" % (at, bt))
                v, vt = "(%s ++ %s)" % (a, self.as_str(b, bt, s)), "str"
            if name in self.frozen:
                self.err(s, "assignment to %r (an input of the region / the loop variable)" % name)
            if name in env and env[name][1] != vt:
                self.err(s, "%r changes its type from %s to %s" % (name, env[name][1], vt))
            x = self.fresh()
            env[name] = (x, vt)
            return "let %s : %s := %s\n%s" % (x, LEAN_TY[vt], v, self.block(rest, env, k))
        if isinstance(s, ast.If):
            c, ct = self.ex(s.test, env)
            if ct != "bool":
                self.err(s, "truth value of a %s" % ct)
            a = self.block(list(s.body) + rest, dict(env), k)
            b = self.block(list(s.orelse) + rest, dict(env), k)
            return "if %s then\n%s\nelse\n%s" % (c, indent(a), indent(b))
        if isinstance(s, ast.For):
            return self.for_loop(s, rest, env, k)
        if isinstance(s, ast.Return):
            if self.in_loop or s.value is None:
                self.err(s, "return inside the loop / without a value")
            v, vt = self.ex(s.value, env)
            if vt != "str":
                self.err(s, "returns a %s" % vt)
            return v
        self.err(s, "statement %s outside the subset" % type(s).__name__)

    def for_loop(self, s, rest, env, k):
        if self.in_loop or self.seen_loop:
            self.err(s, "a second / nested loop")
        self.seen_loop = True
        if s.orelse or not isinstance(s.target, ast.Name) or not isinstance(s.iter, ast.Name):
            self.err(s, "for loop other than `for ch in name:` without else")
        for st in s.body:
            for n in ast.walk(st):
                if isinstance(n, (ast.For, ast.While, ast.Return, ast.Continue, ast.Break, ast.Yield, ast.YieldFrom, ast.Try, ast.With,
                                  ast.Raise, ast.FunctionDef, ast.Lambda, ast.NamedExpr, ast.Delete, ast.Global, ast.Nonlocal)):
                    self.err(n, "%s inside the loop" % type(n).__name__)
        ch = s.target.id
        xs, xt = self.ex(s.iter, env)
        if xt != "str" or ch in env:
            self.err(s, "for over a %s / the loop variable exists in front of the loop" % xt)
        stored = {n.id for st in s.body for n in ast.walk(st) if isinstance(n, ast.Name) and isinstance(n.ctx, ast.Store)}
        carried = [n for n in env if n in stored]
        if len(carried) != 1 or env[carried[0]][1] != "str" or s.iter.id in stored or ch in stored:
            self.err(s, "the loop must change exactly one str local that exists in front of it (found %s)" % sorted(carried))
        buf = carried[0]
        captured = [(n, b) for n, b in env.items() if n != buf]
        params = "".join(" (%s : %s)" % (b[0], LEAN_TY[b[1]]) for _n, b in captured)
        args = "".join(" " + b[0] for _n, b in captured)
        e1 = {n: b for n, b in captured}
        e1[buf] = ("buf", "str")
        e1[ch] = ("ch", "char")
        self.frozen = self.frozen | {ch}
        self.in_loop = True

        def end(e):
            if buf not in e or e[buf][1] != "str":
                self.err(s, "loop-carried %r is unbound" % buf)
            return e[buf][0]

        body = self.block(list(s.body), e1, end)
        self.in_loop = False
        self.frozen = self.frozen - {ch}
        self.legend["escBody.buf"] = buf
        self.legend["escBody.ch"] = ch
        self.decls.append("/-- the body of `for %s in %s:` (line %d): the new value of `%s` -/\ndef escBody%s (buf : Str) (ch : Char) : Str :=\n%s"
                          % (ch, s.iter.id, s.lineno, buf, params, indent(body)))
        x = self.fresh()
        env2 = {n: b for n, b in captured}
        env2[buf] = (x, "str")
        return "let %s : Str := List.foldl (escBody%s) %s %s\n%s" % (x, args, env[buf][0], xs, self.block(rest, env2, k))

    def translate(self, fn):
        a = fn.args
        names = [p.arg for p in a.args]
        for n, _ in INPUTS[1:]:
            if n not in names:
                self.err(fn, "parameter %r not found" % n)
        if not names:
            self.err(fn, "no parameters")
        blk, init = None, None
        for st in fn.body:
            if (isinstance(st, ast.If) and isinstance(st.test, ast.UnaryOp) and isinstance(st.test.op, ast.Not)
                    and isinstance(st.test.operand, ast.Call) and isinstance(st.test.operand.func, ast.Name)
                    and st.test.operand.func.id == "isinstance" and st.test.operand.args
                    and isinstance(st.test.operand.args[0], ast.Name) and st.test.operand.args[0].id == names[0]):
                blk = st
                break
            if isinstance(st, ast.Assign) and len(st.targets) == 1 and isinstance(st.targets[0], ast.Name) and st.targets[0].id == "buffer_str":
                if not (isinstance(st.value, ast.Constant) and type(st.value.value) is str):
                    self.err(st, "buffer_str is initialised with something else than a str constant")
                init = st.value.value
            elif any(isinstance(n, ast.Name) and n.id == "buffer_str" and isinstance(n.ctx, ast.Store) for n in ast.walk(st)):
                self.err(st, "buffer_str is assigned in front of the scalar branch in a way outside the subset")
        if blk is None:
            self.err(fn, "the branch `if not isinstance(%s, …):` was not found" % names[0])
        if init is None:
            self.err(fn, "no `buffer_str = <constant>` in front of the scalar branch")
        if blk.orelse:
            self.err(blk, "the scalar branch has an else")
        last_if = max([j for j, st in enumerate(blk.body) if isinstance(st, ast.If)], default=-1)
        region = list(blk.body[last_if + 1:])
        if not region or not isinstance(region[-1], ast.Return):
            self.err(blk, "the scalar branch does not end with `return`")
        env, sig = {}, []
        self.frozen = {n for n, _ in INPUTS}
        self.in_loop = False
        self.seen_loop = False
        self.decls = []
        for j, (n, ty) in enumerate(INPUTS):
            env[n] = ("b%d" % j, ty)
            sig.append("(b%d : %s)" % (j, LEAN_TY[ty]))
            self.legend["b%d" % j] = n
        x = self.fresh()
        env["buffer_str"] = (x, "str")

        def fell_off(_env):
            self.err(blk, "the region may end without `return`")

        body = "let %s : Str := %s\n%s" % (x, lean_str(init), self.block(region, env, fell_off))
        if not self.seen_loop:
            self.err(blk, "no `for` loop found in the region")
        self.decls.append("/-- the scalar branch of `serialize_dict` after the capitalisation: `b0` is the text of the value -/\n"
                          "def escapeLoop %s : Str :=\n%s" % (" ".join(sig), indent(body)))
        return "\n\n".join(self.decls)


def translate_tree(tree):
    tr = Tr2()
    text = tr.translate(find_function(tree, "serialize_dict"))
    return PRELUDE2 + "\n/-! ### the escaping loop of `serialize_dict` -/\n\n" + text, tr.legend
