"""
Translator for C13: regenerates lean/N0Verif/Gen/CsvPy.lean from the working tree of py552/n0struct
on every run.  It is a small, explicit *Python-subset -> Lean* translator (module `PySubset` below),
applied to `parse_complex_csv_line` (specialised twice: str line + str delimiter, bytes line + bytes
delimiter) and to `generate_complex_csv_row` (rows of str).  `Props/C13.lean` proves that the generated
definitions are equal to the hand-written model `Model/Csv.lean`; a change of the Python source changes
the generated text and thereby breaks (or keeps) these equivalence theorems.

The subset, the exact assumptions about Python semantics and the limits are documented in
notes/C13-gen.md.  Anything outside the subset raises `TranslateError` (the caller records a broken
tie; it is never an infrastructure failure).

Shape of the translation
  * every Python `str`/`bytes` value is a `Str` (= `List Char`; a byte is the character with the same
    code), a byte obtained by iterating over `bytes` is a `Char`, `int` is `Int`, `bool` is `Bool`,
    a list is a `List`;
  * the types of the parameters are fixed by the specialisation; `isinstance(x, T)` and `x is None` are
    resolved from the static type, a statically decided `if` keeps only the live branch;
  * statements are translated with the rest of the block as continuation (the continuation is
    duplicated into both branches of a dynamic `if`), an assignment becomes a (shadowing) `let`;
    a name that is bound to a literal is replaced by the literal (no `let`);
  * a `for` loop becomes `foldE step init seq`: the loop-carried locals (assigned in the body and bound
    before the loop) are the fields of a generated `structure`, sorted by type and then by the position
    of their first assignment in the source; `continue` and the end of the body return the packed
    state; `raise X(...)` is `.error .X` (arguments are not evaluated);
  * local names are normalised (`a<i>` parameters, `f<i>` fields, `x<i>` locals in order of first
    binding), so renaming a Python local regenerates the identical text.
"""
import ast
import os
import re

HERE = os.path.dirname(os.path.dirname(os.path.abspath(__file__)))
OUT = os.path.join(HERE, "lean", "N0Verif", "Gen", "CsvPy.lean")
BASELINE = os.path.join(HERE, "harness", "baselines", "CsvPy.lean.txt")
SRC = os.path.join("n0struct", "n0struct_files_csv.py")

PY_ERRORS = {
    "KeyError", "IndexError", "TypeError", "ValueError", "SyntaxError", "AttributeError", "NameError",
    "UnboundLocalError", "AssertionError", "NotImplementedError", "ReferenceError", "EOFError", "RecursionError",
}
MAX_OUTPUT_LINES = 600  # guard against the blow-up of continuation duplication


class TranslateError(Exception):
    pass


class NeedsControlFlow(Exception):
    """an operand of and/or after the first one may raise: the test must be translated as control flow"""


# ----------------------------------------------------------------------------------------------
# types
# ----------------------------------------------------------------------------------------------
class Cell:
    """element type of a list, possibly not known yet (`[]`)"""

    def __init__(self, ty=None):
        self.ty = ty


def t_list(elem=None):
    return ("list", Cell(elem))


def is_list(t):
    return isinstance(t, tuple) and t[0] == "list"


def type_name(t):
    if is_list(t):
        return "list[%s]" % (type_name(t[1].ty) if t[1].ty else "?")
    return t


def lean_type(t):
    if t in ("str", "bytes"):
        return "Str"
    if t == "byte":
        return "Char"
    if t == "int":
        return "Int"
    if t == "bool":
        return "Bool"
    if is_list(t):
        if t[1].ty is None:
            raise TranslateError("element type of a list is never determined")
        inner = lean_type(t[1].ty)
        return "List " + (inner if " " not in inner else "(%s)" % inner)
    raise TranslateError("no Lean type for %r" % (t,))


def type_rank(t):
    if t in ("str", "bytes"):
        return 0
    if is_list(t):
        return 1
    if t == "bool":
        return 2
    if t in ("int", "byte"):
        return 3
    return 9


def unify(a, b, what):
    """types must agree; unknown list elements are filled in"""
    if is_list(a) and is_list(b):
        if a[1].ty is None and b[1].ty is None:
            return a  # both unknown: resolved when one of them is
        if a[1].ty is None:
            a[1].ty = b[1].ty
        elif b[1].ty is None:
            b[1].ty = a[1].ty
        else:
            unify(a[1].ty, b[1].ty, what)
        return a
    if a != b:
        raise TranslateError("%s: types %s and %s differ" % (what, type_name(a), type_name(b)))
    return a


class B:
    """binding of a Python name: Lean text (a variable or a literal), type, literal?, bound outside the loop?"""

    __slots__ = ("text", "ty", "const", "outer")

    def __init__(self, text, ty, const=False, outer=False):
        self.text, self.ty, self.const, self.outer = text, ty, const, outer


def lean_char(c):
    o = ord(c)
    if c == "\n":
        return "'\\n'"
    if c == "\r":
        return "'\\r'"
    if c == "\t":
        return "'\\t'"
    if c == "'":
        return "'\\''"
    if c == "\\":
        return "'\\\\'"
    if 32 <= o < 127:
        return "'%s'" % c
    return "(Char.ofNat 0x%X)" % o


def lean_str(s):
    if isinstance(s, bytes):
        s = s.decode("latin-1")
    if not s:
        return "([] : Str)"
    return "[" + ", ".join(lean_char(c) for c in s) + "]"


def indent(text, n=2):
    pad = " " * n
    return "\n".join(pad + l if l else l for l in text.split("\n"))


# ----------------------------------------------------------------------------------------------
# the translator of one function (one specialisation)
# ----------------------------------------------------------------------------------------------
class FnTranslator:
    def __init__(self, fn, lean_name, spec):
        """spec: {param name: 'str' | 'bytes' | 'int' | 'bool' | ('list', elem) | 'identity' | 'unused'}"""
        self.fn = fn
        self.lean_name = lean_name
        self.cap = lean_name[0].upper() + lean_name[1:]
        self.spec = spec
        self.decls = []  # Lean declarations emitted before the function itself
        self.local_names = {}  # python name -> x<i>
        self.loop = None  # dict while translating a loop body
        self.nloops = 0
        self.ret_ty = None
        self.legend = {}  # lean name -> python name (for the evidence; not written to the Lean file)
        self.identity_fns = set()
        self.pending = []  # effects of the expression being translated: (temporary, Lean text : Except PyErr _)
        self.ntemps = 0

    # ---------------- effects
    def effect(self, lean_expr):
        t = "t%d" % self.ntemps
        self.ntemps += 1
        self.pending.append((t, lean_expr))
        return t

    def take(self):
        eff, self.pending = self.pending, []
        return eff

    @staticmethod
    def wrap(eff, text):
        """evaluate the effects (in order) in front of `text`"""
        for t, e in reversed(eff):
            text = "match %s with\n| .error e => .error e\n| .ok %s =>\n%s" % (e, t, indent(text))
        return text

    # ---------------- names
    def local(self, pyname):
        if pyname not in self.local_names:
            self.local_names[pyname] = "x%d" % len(self.local_names)
            self.legend[self.local_names[pyname]] = pyname
        return self.local_names[pyname]

    def lookup(self, name, env, node):
        if name not in env:
            raise TranslateError("line %d: name %r is not (definitely) bound here" % (node.lineno, name))
        b = env[name]
        if self.loop is not None and b.outer and not b.const:
            if b.text not in self.loop["captured"]:
                self.loop["captured"][b.text] = b.ty
        return b

    # ---------------- static facts
    def static_type_test(self, e, env):
        """value of isinstance(x, T) / x is None / x is not None when decided by the static type, else None"""
        if isinstance(e, ast.Call) and isinstance(e.func, ast.Name) and e.func.id == "isinstance" and len(e.args) == 2 and not e.keywords:
            x, t = e.args
            if not isinstance(x, ast.Name):
                raise TranslateError("line %d: isinstance of a non-name" % e.lineno)
            ty = self.lookup(x.id, env, e).ty
            tys = t.elts if isinstance(t, ast.Tuple) else [t]
            names = []
            for tt in tys:
                if not isinstance(tt, ast.Name) or tt.id not in ("str", "bytes", "int", "bool", "list"):
                    raise TranslateError("line %d: isinstance against an unsupported class" % e.lineno)
                names.append(tt.id)
            if ty == "bool" and "int" in names and "bool" not in names:
                raise TranslateError("line %d: isinstance(bool value, int)" % e.lineno)
            mine = {"str": "str", "bytes": "bytes", "byte": "int", "int": "int", "bool": "bool"}.get(ty, "list" if is_list(ty) else None)
            if mine is None:
                raise TranslateError("line %d: isinstance of a value of type %s" % (e.lineno, type_name(ty)))
            return mine in names
        if isinstance(e, ast.Compare) and len(e.ops) == 1 and isinstance(e.ops[0], (ast.Is, ast.IsNot)):
            r = e.comparators[0]
            if isinstance(r, ast.Constant) and r.value is None and isinstance(e.left, ast.Name):
                self.lookup(e.left.id, env, e)  # every supported type is not None
                return isinstance(e.ops[0], ast.IsNot)
            raise TranslateError("line %d: `is` other than `<name> is [not] None`" % e.lineno)
        return None

    def static_truth(self, e, env):
        """True/False when the test is decided statically, None otherwise"""
        v = self.static_type_test(e, env)
        if v is not None:
            return v
        if isinstance(e, ast.UnaryOp) and isinstance(e.op, ast.Not):
            v = self.static_truth(e.operand, env)
            return None if v is None else (not v)
        if isinstance(e, ast.BoolOp):
            vals = [self.static_truth(x, env) for x in e.values]
            if isinstance(e.op, ast.And):
                if any(v is False for v in vals):
                    # sound only if the operands before it are pure, which every supported expression is
                    return False
                if all(v is True for v in vals):
                    return True
            else:
                if any(v is True for v in vals):
                    return True
                if all(v is False for v in vals):
                    return False
        return None

    # ---------------- expressions
    def literal(self, e, env):
        """binding when `e` is a literal (or a name bound to one), else None"""
        if isinstance(e, ast.Constant):
            v = e.value
            if isinstance(v, bool):
                return B("true" if v else "false", "bool", True)
            if isinstance(v, str):
                return B(lean_str(v), "str", True)
            if isinstance(v, bytes):
                return B(lean_str(v), "bytes", True)
            if isinstance(v, int):
                return B("(%d : Int)" % v if v >= 0 else "(-%d : Int)" % -v, "int", True)
            raise TranslateError("line %d: literal %r is outside the subset" % (e.lineno, v))
        if isinstance(e, ast.List) and not e.elts:
            return B("[]", t_list(), True)
        if isinstance(e, ast.Name) and e.id in env and env[e.id].const:
            b = env[e.id]
            if is_list(b.ty):
                return B("[]", t_list(b.ty[1].ty), True)  # a fresh empty list, not an alias
            return b
        return None

    def truth(self, e, env):
        """Lean Bool text of the truth value of a Python expression"""
        v = self.static_truth(e, env)
        if v is not None:
            return "true" if v else "false"
        if isinstance(e, ast.UnaryOp) and isinstance(e.op, ast.Not):
            return "(!%s)" % self.truth(e.operand, env)
        if isinstance(e, ast.BoolOp):
            op = " && " if isinstance(e.op, ast.And) else " || "
            parts = []
            for i, x in enumerate(e.values):
                n0 = len(self.pending)
                parts.append(self.truth(x, env))
                if i > 0 and len(self.pending) > n0:
                    raise NeedsControlFlow()
            return "(" + op.join(parts) + ")"
        text, ty = self.expr(e, env)
        if ty == "bool":
            return text
        if ty in ("str", "bytes") or is_list(ty):
            return "(!(List.isEmpty %s))" % text
        if ty == "int":
            return "(%s != 0)" % text
        raise TranslateError("line %d: truth value of a %s" % (e.lineno, type_name(ty)))

    def expr(self, e, env):
        """(Lean text, type); the text is atomic or parenthesised"""
        lit = self.literal(e, env)
        if lit is not None:
            return lit.text, lit.ty
        if isinstance(e, ast.Name):
            b = self.lookup(e.id, env, e)
            return b.text, b.ty
        if isinstance(e, ast.UnaryOp):
            if isinstance(e.op, ast.Not):
                return self.truth(e, env), "bool"
            if isinstance(e.op, ast.USub):
                t, ty = self.expr(e.operand, env)
                if ty != "int":
                    raise TranslateError("line %d: unary minus of a %s" % (e.lineno, type_name(ty)))
                return "(-%s)" % t, "int"
        if isinstance(e, ast.BoolOp):
            # and/or return one of the operands; only the all-bool case is an expression of the subset
            n0 = len(self.pending)
            parts = [self.expr(x, env) for x in e.values[:1]]
            n1 = len(self.pending)
            parts += [self.expr(x, env) for x in e.values[1:]]
            if len(self.pending) > n1:
                raise TranslateError("line %d: an operand of and/or that may raise, outside an `if` test" % e.lineno)
            if all(ty == "bool" for _t, ty in parts):
                op = " && " if isinstance(e.op, ast.And) else " || "
                return "(" + op.join(t for t, _ in parts) + ")", "bool"
            raise TranslateError("line %d: and/or of non-bool operands used as a value" % e.lineno)
        if isinstance(e, ast.Compare):
            return self.compare(e, env), "bool"
        if isinstance(e, ast.BinOp):
            l, lt = self.expr(e.left, env)
            r, rt = self.expr(e.right, env)
            if isinstance(e.op, ast.Add):
                if lt == rt and lt in ("str", "bytes"):
                    return "(%s ++ %s)" % (l, r), lt
                if lt == rt == "int":
                    return "(%s + %s)" % (l, r), "int"
                if is_list(lt) and is_list(rt):
                    raise TranslateError("line %d: list concatenation" % e.lineno)
                raise TranslateError("line %d: %s + %s" % (e.lineno, type_name(lt), type_name(rt)))
            if isinstance(e.op, ast.Sub) and lt == rt == "int":
                return "(%s - %s)" % (l, r), "int"
            raise TranslateError("line %d: binary operator %s" % (e.lineno, type(e.op).__name__))
        if isinstance(e, ast.IfExp):
            v = self.static_truth(e.test, env)
            if v is not None:
                return self.expr(e.body if v else e.orelse, env)
            c = self.truth(e.test, env)
            n0 = len(self.pending)
            a, at = self.expr(e.body, env)
            b, bt = self.expr(e.orelse, env)
            if len(self.pending) > n0:
                raise TranslateError("line %d: a branch of a conditional expression may raise" % e.lineno)
            unify(at, bt, "line %d: conditional expression" % e.lineno)
            return "(if %s then %s else %s)" % (c, a, b), at
        if isinstance(e, ast.Subscript):
            return self.subscript(e, env)
        if isinstance(e, ast.Call):
            return self.call(e, env)
        raise TranslateError("line %d: expression %s is outside the subset" % (getattr(e, "lineno", 0), type(e).__name__))

    def compare(self, e, env):
        if len(e.ops) != 1:
            raise TranslateError("line %d: chained comparison" % e.lineno)
        v = self.static_type_test(e, env)
        if v is not None:
            return "true" if v else "false"
        op = e.ops[0]
        l, lt = self.expr(e.left, env)
        r, rt = self.expr(e.comparators[0], env)
        if isinstance(op, (ast.Eq, ast.NotEq)):
            neg = isinstance(op, ast.NotEq)
            if is_list(lt) and is_list(rt):
                unify(lt, rt, "line %d: comparison" % e.lineno)
                same = True
            else:
                same = lt == rt
            if not same:
                kinds = {lt if not is_list(lt) else "list", rt if not is_list(rt) else "list"}
                if kinds & {"bool"} and kinds & {"int", "byte"} or kinds == {"int", "byte"}:
                    raise TranslateError("line %d: comparison between %s and %s" % (e.lineno, type_name(lt), type_name(rt)))
                # values of unrelated built-in types never compare equal (str/bytes/int/list)
                return "true" if neg else "false"
            return "(%s %s %s)" % (l, "!=" if neg else "==", r)
        if isinstance(op, (ast.In, ast.NotIn)):
            neg = isinstance(op, ast.NotIn)
            if lt == rt and lt in ("str", "bytes"):
                t = "(Py.isInfix %s %s)" % (l, r)
            elif is_list(rt):
                unify(rt, t_list(lt), "line %d: membership" % e.lineno)
                t = "(List.contains %s %s)" % (r, l)
            else:
                raise TranslateError("line %d: `%s in %s`" % (e.lineno, type_name(lt), type_name(rt)))
            return "(!%s)" % t if neg else t
        if isinstance(op, (ast.Lt, ast.LtE, ast.Gt, ast.GtE)) and lt == rt == "int":
            sym = {ast.Lt: "<", ast.LtE: "≤", ast.Gt: ">", ast.GtE: "≥"}[type(op)]
            return "(decide (%s %s %s))" % (l, sym, r)
        raise TranslateError("line %d: comparison %s between %s and %s" % (e.lineno, type(op).__name__, type_name(lt), type_name(rt)))

    def subscript(self, e, env):
        v, vt = self.expr(e.value, env)
        sl = e.slice
        if isinstance(sl, ast.Slice) and sl.step is None and (vt in ("str", "bytes") or is_list(vt)):
            if sl.lower is None and sl.upper is not None:
                u, ut = self.expr(sl.upper, env)
                if ut != "int":
                    raise TranslateError("line %d: slice bound of type %s" % (e.lineno, type_name(ut)))
                return "(sliceTo %s %s)" % (v, u), vt
            if sl.upper is None and sl.lower is not None:
                u, ut = self.expr(sl.lower, env)
                if ut != "int":
                    raise TranslateError("line %d: slice bound of type %s" % (e.lineno, type_name(ut)))
                return "(sliceFrom %s %s)" % (v, u), vt
        if not isinstance(sl, (ast.Slice, ast.Tuple)):
            i, it = self.expr(sl, env)
            if it != "int":
                raise TranslateError("line %d: index of type %s" % (e.lineno, type_name(it)))
            if vt == "str":
                return "[%s]" % self.effect("idxE %s %s" % (v, i)), "str"
            if vt == "bytes":
                return self.effect("idxE %s %s" % (v, i)), "byte"
            if is_list(vt) and vt[1].ty is not None and not is_list(vt[1].ty):
                return self.effect("idxE %s %s" % (v, i)), vt[1].ty
        raise TranslateError("line %d: subscript other than x[i], x[:e], x[e:]" % e.lineno)

    def call(self, e, env):
        if e.keywords:
            raise TranslateError("line %d: keyword arguments" % e.lineno)
        f = e.func
        if isinstance(f, ast.Name):
            if f.id == "len" and len(e.args) == 1:
                t, ty = self.expr(e.args[0], env)
                if ty in ("str", "bytes") or is_list(ty):
                    return "(Int.ofNat (List.length %s))" % t, "int"
                raise TranslateError("line %d: len of a %s" % (e.lineno, type_name(ty)))
            if f.id in self.identity_fns and len(e.args) == 1:
                return self.expr(e.args[0], env)
            if f.id == "str" and len(e.args) == 1:
                t, ty = self.expr(e.args[0], env)
                if ty == "str":
                    return t, ty
                if ty == "int":
                    return "(Py.intRepr %s)" % t, "str"
            raise TranslateError("line %d: call of %s" % (e.lineno, f.id))
        if isinstance(f, ast.Attribute):
            o, ot = self.expr(f.value, env)
            args = [self.expr(a, env) for a in e.args]
            m = f.attr
            strlike = ot in ("str", "bytes")
            if m == "startswith" and strlike and len(args) == 1 and args[0][1] == ot:
                return "(Py.startsWith %s %s)" % (o, args[0][0]), "bool"
            if m == "endswith" and strlike and len(args) == 1 and args[0][1] == ot:
                return "(Py.endsWith %s %s)" % (o, args[0][0]), "bool"
            if m == "replace" and strlike and len(args) == 2 and args[0][1] == ot and args[1][1] == ot:
                old = e.args[0]
                lit = self.literal(old, env)
                if lit is None or lit.text == "([] : Str)":
                    raise TranslateError("line %d: replace() whose first argument is not a non-empty literal" % e.lineno)
                return "(Py.replace %s %s %s)" % (args[0][0], args[1][0], o), ot
            if m in ("rstrip", "lstrip", "strip") and strlike:
                if len(args) == 1 and args[0][1] == ot:
                    return "(Py.%s %s %s)" % (m, args[0][0], o), ot
                if len(args) == 0:
                    fn = {"str": {"strip": "Py.stripWs", "lstrip": "lstripWs", "rstrip": "rstripWs"},
                          "bytes": {"strip": "stripB", "lstrip": "lstripB", "rstrip": "rstripB"}}[ot][m]
                    return "(%s %s)" % (fn, o), ot
            if m == "to_bytes" and ot == "byte" and len(e.args) == 2 and isinstance(e.args[0], ast.Constant) and e.args[0].value == 1 \
                    and isinstance(e.args[1], ast.Constant) and e.args[1].value in ("big", "little"):
                return "[%s]" % o, "bytes"
            raise TranslateError("line %d: method %s on a %s with %d argument(s)" % (e.lineno, m, type_name(ot), len(args)))
        raise TranslateError("line %d: call outside the subset" % e.lineno)

    # ---------------- statements
    def bind(self, name, e, env, node):
        """(new env, list of `let` lines) for `name = e`"""
        if is_list(self.peek_type(e, env)) and isinstance(e, ast.Name) and not env[e.id].const:
            raise TranslateError("line %d: a second name for a list (aliasing)" % node.lineno)
        lit = self.literal(e, env)
        env = dict(env)
        if lit is not None:
            env[name] = B(lit.text, lit.ty, True, False)
            return env, []
        text, ty = self.expr(e, env)
        x = self.local(name)
        env[name] = B(x, ty, False, False)
        return env, ["let %s : %s := %s" % (x, lean_type(ty), text)]

    def branch(self, test, env, kt, kf):
        """an `if` test as control flow (short circuit kept): Lean text of `if test then kt() else kf()`"""
        v = self.static_truth(test, env)
        if v is not None:
            return kt() if v else kf()
        if isinstance(test, ast.UnaryOp) and isinstance(test.op, ast.Not):
            return self.branch(test.operand, env, kf, kt)
        if isinstance(test, ast.BoolOp):
            first, others = test.values[0], test.values[1:]
            more = others[0] if len(others) == 1 else ast.BoolOp(op=test.op, values=others, lineno=test.lineno)
            if isinstance(test.op, ast.And):
                return self.branch(first, env, lambda: self.branch(more, env, kt, kf), kf)
            return self.branch(first, env, kt, lambda: self.branch(more, env, kt, kf))
        c = self.truth(test, env)
        eff = self.take()
        return self.wrap(eff, "if %s then\n%s\nelse\n%s" % (c, indent(kt()), indent(kf())))

    def peek_type(self, e, env):
        if isinstance(e, ast.Name) and e.id in env:
            return env[e.id].ty
        return None

    def assign_value(self, name, text, ty, env):
        env = dict(env)
        x = self.local(name)
        env[name] = B(x, ty, False, False)
        return env, ["let %s : %s := %s" % (x, lean_type(ty), text)]

    def block(self, stmts, env, k):
        """Lean text (type `Except PyErr _`) of the statements followed by the continuation `k(env)`"""
        if not stmts:
            return k(env)
        if self.pending:
            raise TranslateError("internal: unflushed effects")
        s, rest = stmts[0], stmts[1:]
        if isinstance(s, ast.Pass):
            return self.block(rest, env, k)
        if isinstance(s, ast.Expr):
            v = s.value
            if isinstance(v, ast.Constant) and isinstance(v.value, str):
                return self.block(rest, env, k)  # docstring
            if isinstance(v, ast.Call) and isinstance(v.func, ast.Attribute) and v.func.attr == "append" and isinstance(v.func.value, ast.Name) \
                    and len(v.args) == 1 and not v.keywords:
                name = v.func.value.id
                b = self.lookup(name, env, s)
                if not is_list(b.ty):
                    raise TranslateError("line %d: append on a %s" % (s.lineno, type_name(b.ty)))
                t, ty = self.expr(v.args[0], env)
                if is_list(ty):
                    raise TranslateError("line %d: a list stored in a list (aliasing)" % s.lineno)
                unify(b.ty, t_list(ty), "line %d: append" % s.lineno)
                env2, lets = self.assign_value(name, "(%s ++ [%s])" % (b.text, t), b.ty, env)
                eff = self.take()
                return self.wrap(eff, "\n".join(lets + [self.block(rest, env2, k)]))
            raise TranslateError("line %d: expression statement outside the subset" % s.lineno)
        if isinstance(s, ast.Assign):
            lets = []
            cur = env
            for tgt in s.targets:
                if not isinstance(tgt, ast.Name):
                    raise TranslateError("line %d: assignment to something that is not a local name" % s.lineno)
            # `a = b = e`: e is evaluated once; every supported expression is pure, so it may be repeated
            for tgt in s.targets:
                self.check_assignable(tgt.id, s)
                cur2, l = self.bind(tgt.id, s.value, env, s)
                cur = dict(cur)
                cur[tgt.id] = cur2[tgt.id]
                lets += l
                if len(s.targets) > 1 and self.pending:
                    raise TranslateError("line %d: chained assignment of an expression that may raise" % s.lineno)
            eff = self.take()
            return self.wrap(eff, "\n".join(lets + [self.block(rest, cur, k)]))
        if isinstance(s, ast.AugAssign):
            if not isinstance(s.target, ast.Name) or not isinstance(s.op, ast.Add):
                raise TranslateError("line %d: augmented assignment other than `name += e`" % s.lineno)
            self.check_assignable(s.target.id, s)
            b = self.lookup(s.target.id, env, s)
            if is_list(b.ty):
                # `lst += [e1, e2]` is a sequence of appends (no other name can see the list: aliasing is rejected)
                if not isinstance(s.value, ast.List):
                    raise TranslateError("line %d: `+=` on a list with something that is not a list display" % s.lineno)
                apps = [ast.Expr(value=ast.Call(func=ast.Attribute(value=ast.Name(id=s.target.id, ctx=ast.Load(), lineno=s.lineno), attr="append", ctx=ast.Load(), lineno=s.lineno),
                                                 args=[x], keywords=[], lineno=s.lineno), lineno=s.lineno) for x in s.value.elts]
                return self.block(apps + rest, env, k)
            new = ast.BinOp(left=ast.Name(id=s.target.id, ctx=ast.Load(), lineno=s.lineno), op=ast.Add(), right=s.value, lineno=s.lineno)
            text, ty = self.expr(new, env)
            env2, lets = self.assign_value(s.target.id, text, ty, env)
            eff = self.take()
            return self.wrap(eff, "\n".join(lets + [self.block(rest, env2, k)]))
        if isinstance(s, ast.If):
            v = self.static_truth(s.test, env)
            if v is True:
                return self.block(list(s.body) + rest, env, k)
            if v is False:
                return self.block(list(s.orelse) + rest, env, k)
            kt = lambda: self.block(list(s.body) + rest, env, k)
            kf = lambda: self.block(list(s.orelse) + rest, env, k)
            try:
                c = self.truth(s.test, env)
            except NeedsControlFlow:
                self.pending = []
                return self.branch(s.test, env, kt, kf)
            eff = self.take()
            return self.wrap(eff, "if %s then\n%s\nelse\n%s" % (c, indent(kt()), indent(kf())))
        if isinstance(s, ast.Continue):
            if self.loop is None:
                raise TranslateError("line %d: continue outside a loop" % s.lineno)
            return self.loop["pack"](env)
        if isinstance(s, ast.Raise):
            exc = s.exc
            if isinstance(exc, ast.Call):
                exc = exc.func
            if s.cause is not None or not isinstance(exc, ast.Name) or exc.id not in PY_ERRORS:
                raise TranslateError("line %d: raise of something other than a built-in exception class" % s.lineno)
            return ".error .%s" % exc.id
        if isinstance(s, ast.Return):
            if self.loop is not None:
                raise TranslateError("line %d: return inside a loop" % s.lineno)
            if s.value is None:
                raise TranslateError("line %d: return without a value" % s.lineno)
            text, ty = self.expr(s.value, env)
            if self.ret_ty is None:
                self.ret_ty = ty
            else:
                unify(self.ret_ty, ty, "line %d: return" % s.lineno)
            return self.wrap(self.take(), ".ok %s" % text)
        if isinstance(s, ast.For):
            return self.for_loop(s, rest, env, k)
        raise TranslateError("line %d: statement %s is outside the subset" % (s.lineno, type(s).__name__))

    def check_assignable(self, name, node):
        if self.loop is not None and name in self.loop["frozen"]:
            raise TranslateError("line %d: the loop assigns %r, which the loop header reads" % (node.lineno, name))

    # ---------------- loops
    @staticmethod
    def assigned_names(stmts):
        out = []
        for st in stmts:
            for n in ast.walk(st):
                if isinstance(n, ast.Assign):
                    for t in n.targets:
                        for m in ast.walk(t):
                            if isinstance(m, ast.Name):
                                out.append((m.id, n.lineno, m.col_offset))
                elif isinstance(n, ast.AugAssign) and isinstance(n.target, ast.Name):
                    out.append((n.target.id, n.lineno, n.target.col_offset))
                elif isinstance(n, ast.Call) and isinstance(n.func, ast.Attribute) and n.func.attr in ("append", "extend", "insert", "pop", "clear", "remove", "sort", "reverse") \
                        and isinstance(n.func.value, ast.Name):
                    out.append((n.func.value.id, n.lineno, n.func.value.col_offset))
                elif isinstance(n, (ast.For, ast.While, ast.With, ast.Try, ast.FunctionDef, ast.Lambda, ast.NamedExpr, ast.Global, ast.Nonlocal, ast.Delete, ast.Import, ast.ImportFrom)):
                    raise TranslateError("line %d: %s inside a loop body" % (getattr(n, "lineno", 0), type(n).__name__))
        return out

    @staticmethod
    def names_read_outside_raise(stmts):
        out = set()

        def walk(n):
            if isinstance(n, ast.Raise):
                return
            if isinstance(n, ast.Name):
                out.add(n.id)
            for c in ast.iter_child_nodes(n):
                walk(c)

        for st in stmts:
            walk(st)
        return out

    def first_assignment(self, name):
        best = None
        for n in ast.walk(self.fn):
            pos = None
            if isinstance(n, ast.Assign):
                for t in n.targets:
                    if isinstance(t, ast.Name) and t.id == name:
                        pos = (n.lineno, t.col_offset)
            elif isinstance(n, ast.AugAssign) and isinstance(n.target, ast.Name) and n.target.id == name:
                pos = (n.lineno, n.target.col_offset)
            if pos and (best is None or pos < best):
                best = pos
        return best or (10**9, 0)

    def for_loop(self, s, rest, env, k):
        if self.loop is not None:
            raise TranslateError("line %d: nested loop" % s.lineno)
        if s.orelse:
            raise TranslateError("line %d: for ... else" % s.lineno)
        # header
        it = s.iter
        index_name = None
        if isinstance(it, ast.Call) and isinstance(it.func, ast.Name) and it.func.id == "enumerate" and len(it.args) == 1 and not it.keywords:
            if not (isinstance(s.target, ast.Tuple) and len(s.target.elts) == 2 and all(isinstance(x, ast.Name) for x in s.target.elts)):
                raise TranslateError("line %d: enumerate without `for i, x in`" % s.lineno)
            index_name, elem_name = s.target.elts[0].id, s.target.elts[1].id
            it = it.args[0]
        elif isinstance(s.target, ast.Name):
            elem_name = s.target.id
        else:
            raise TranslateError("line %d: loop target outside the subset" % s.lineno)
        seq, seq_ty = self.expr(it, env)
        seq_eff = self.take()
        if seq_ty == "str":
            elem_ty, raw_ty = "str", "Char"
        elif seq_ty == "bytes":
            elem_ty, raw_ty = "byte", "Char"
        elif is_list(seq_ty) and seq_ty[1].ty is not None and not is_list(seq_ty[1].ty):
            elem_ty, raw_ty = seq_ty[1].ty, lean_type(seq_ty[1].ty)
        else:
            raise TranslateError("line %d: iteration over a %s" % (s.lineno, type_name(seq_ty)))
        read = self.names_read_outside_raise(s.body)
        use_index = index_name is not None and index_name in read
        assigned = self.assigned_names(s.body)
        assigned_set = {a[0] for a in assigned}
        frozen = {n.id for n in ast.walk(it) if isinstance(n, ast.Name)}
        if (assigned_set | {elem_name, index_name}) & frozen:
            raise TranslateError("line %d: the loop body assigns a name the loop header reads" % s.lineno)
        if elem_name in env or (index_name and index_name in env):
            raise TranslateError("line %d: the loop target re-uses a name that is already bound" % s.lineno)
        carried = [n for n in assigned_set if n in env and n != elem_name]
        carried.sort(key=lambda n: (type_rank(env[n].ty), self.first_assignment(n), n))
        self.nloops += 1
        suffix = "" if self.nloops == 1 else str(self.nloops)
        st_name = "%s.State%s" % (self.cap, suffix)
        step_name = "%s.step%s" % (self.cap, suffix)
        field_tys = [env[n].ty for n in carried]
        fields = ["f%d" % i for i in range(len(carried))]

        def pack(e2):
            vals = []
            for n, ty in zip(carried, field_tys):
                b = e2[n]
                if is_list(ty) and is_list(b.ty):
                    unify(ty, b.ty, "loop-carried %r" % n)
                elif b.ty != ty:
                    raise TranslateError("loop-carried %r changes its type from %s to %s" % (n, type_name(ty), type_name(b.ty)))
                vals.append(b.text)
            return ".ok ⟨%s⟩" % ", ".join(vals)

        # body environment: everything bound so far is `outer`; carried names are re-bound from the state
        benv = {n: B(b.text, b.ty, b.const, True) for n, b in env.items()}
        head = []
        for n, f, ty in zip(carried, fields, field_tys):
            x = self.local(n)
            benv[n] = B(x, ty, False, False)
            head.append((x, ty, f))
        self.loop = {"pack": pack, "captured": {}, "frozen": frozen}
        if seq_ty == "str":  # iterating over a str yields one-character strs
            x = self.local(elem_name)
            benv[elem_name] = B(x, "str", False, False)
            elem_lets = ["let %s : Str := [c]" % x]
        else:
            benv[elem_name] = B("c", elem_ty, False, False)
            elem_lets = []
        if use_index:  # the fold runs over (item, position) pairs
            x = self.local(index_name)
            benv[index_name] = B(x, "int", False, False)
            elem_lets = ["let c : %s := ci.1" % raw_ty, "let %s : Int := Int.ofNat ci.2" % x] + elem_lets
        body = self.block(list(s.body), benv, pack)
        captured = self.loop["captured"]
        self.loop = None
        head_lets = ["let %s : %s := st.%s" % (x, lean_type(ty), f) for x, ty, f in head]
        cap_names = sorted(captured, key=lambda n: (n[0], int(n[1:])))
        params = "".join(" (%s : %s)" % (n, lean_type(captured[n])) for n in cap_names)
        self.decls.append(
            "structure %s where\n%s\n  deriving Repr, DecidableEq" % (st_name, "\n".join("  %s : %s" % (f, lean_type(ty)) for f, ty in zip(fields, field_tys)))
        )
        self.decls.append(
            "def %s%s (st : %s) (%s) : Except PyErr %s :=\n%s"
            % (step_name, params, st_name, "ci : %s × Nat" % raw_ty if use_index else "c : %s" % raw_ty, st_name, indent("\n".join(head_lets + elem_lets + [body])))
        )
        for f, n in zip(fields, carried):
            self.legend["%s.%s" % (st_name, f)] = n
        # after the loop: the carried names are read back from the final state; loop-local names are gone
        init = "⟨%s⟩" % ", ".join(env[n].text for n in carried)
        aenv = {n: b for n, b in env.items()}
        lets = []
        for n, f, ty in zip(carried, fields, field_tys):
            x = self.local(n)
            aenv[n] = B(x, ty, False, False)
            lets.append("let %s : %s := st.%s" % (x, lean_type(ty), f))
        after = self.block(rest, aenv, k)
        call = "foldE (%s%s) %s %s" % (step_name, "".join(" " + n for n in cap_names), "(%s : %s)" % (init, st_name), "(List.zipIdx %s)" % seq if use_index else seq)
        return self.wrap(seq_eff, "match %s with\n| .error e => .error e\n| .ok st =>\n%s" % (call, indent("\n".join(lets + [after]))))

    # ---------------- the function
    def translate(self):
        fn = self.fn
        a = fn.args
        if a.vararg or a.kwarg or a.kwonlyargs or a.posonlyargs:
            raise TranslateError("%s: parameter kinds outside the subset" % fn.name)
        env = {}
        params = []
        defaults = dict(zip([x.arg for x in a.args][len(a.args) - len(a.defaults):], a.defaults))
        unused = set()
        for i, p in enumerate(a.args):
            want = self.spec.get(p.arg)
            if want is None:
                raise TranslateError("%s: parameter %r is not covered by the specialisation" % (fn.name, p.arg))
            if want == "identity":
                d = defaults.get(p.arg)
                ok = isinstance(d, ast.Lambda) and len(d.args.args) == 1 and not d.args.defaults and isinstance(d.body, ast.Name) and d.body.id == d.args.args[0].arg
                if not ok:
                    raise TranslateError("%s: the default of %r is not the identity lambda" % (fn.name, p.arg))
                self.identity_fns.add(p.arg)
                continue
            if want == "unused":
                unused.add(p.arg)
                continue
            ty = t_list(want[1]) if isinstance(want, tuple) else want
            name = "a%d" % len(params)
            params.append((name, ty))
            self.legend[name] = p.arg
            env[p.arg] = B(name, ty, False, False)
        for n in ast.walk(fn):
            if isinstance(n, ast.Name) and n.id in unused:
                raise TranslateError("%s: parameter %r, declared unused by the specialisation, is used" % (fn.name, n.id))
            if isinstance(n, (ast.Yield, ast.YieldFrom, ast.Await)):
                raise TranslateError("%s: generator / coroutine" % fn.name)
        for n in ast.walk(fn):
            if isinstance(n, ast.Assign):
                for t in n.targets:
                    if isinstance(t, ast.Name) and t.id in self.identity_fns:
                        raise TranslateError("%s: the callable parameter %r is re-assigned" % (fn.name, t.id))

        def fell_off(_env):
            raise TranslateError("%s: control may reach the end of the function without `return`" % fn.name)

        body = self.block(list(fn.body), env, fell_off)
        sig = "".join(" (%s : %s)" % (n, lean_type(t)) for n, t in params)
        self.decls.append("def %s%s : Except PyErr %s :=\n%s" % (self.lean_name, sig, lean_type(self.ret_ty) if " " not in lean_type(self.ret_ty) else "(%s)" % lean_type(self.ret_ty), indent(body)))
        return "\n\n".join(self.decls)


# ----------------------------------------------------------------------------------------------
# the file
# ----------------------------------------------------------------------------------------------
PRELUDE = """-- GENERATED by harness/translate_py_csv.py from n0struct/n0struct_files_csv.py; do not edit
import N0Verif.Py.Basic
/-!
  Lean definitions regenerated from the Python source of `parse_complex_csv_line` (two specialisations)
  and `generate_complex_csv_row` on every run of `./check C13`.  `Props/C13.lean` proves them equal to
  the hand-written model `Model/Csv.lean`.  Names are normalised: `a<i>` parameters of the
  specialisation in source order, `f<i>` loop-carried locals (sorted by type, then by first
  assignment), `x<i>` locals.
-/
set_option linter.unusedVariables false
namespace N0.Gen.CsvPy
open N0 N0.Py

/-! ### run-time support of the translated subset -/

/-- a `for` loop whose body may raise -/
def foldE {σ α : Type} (f : σ → α → Except PyErr σ) : σ → List α → Except PyErr σ
  | s, [] => .ok s
  | s, x :: xs =>
    match f s x with
    | .error e => .error e
    | .ok s' => foldE f s' xs

/-- `s[:e]` -/
def sliceTo {α : Type} (s : List α) (e : Int) : List α :=
  if e < 0 then s.take (s.length - e.natAbs) else s.take e.toNat

/-- `s[e:]` -/
def sliceFrom {α : Type} (s : List α) (e : Int) : List α :=
  if e < 0 then s.drop (s.length - e.natAbs) else s.drop e.toNat

/-- `s[i]` (raises `IndexError` outside the range) -/
def idxE {α : Type} (s : List α) (i : Int) : Except PyErr α :=
  let j : Int := if i < 0 then i + Int.ofNat s.length else i
  if j < 0 then .error .IndexError
  else match s[j.toNat]? with
    | some v => .ok v
    | none => .error .IndexError

/-- `str.lstrip()` / `str.rstrip()` without argument -/
def lstripWs (s : Str) : Str := s.dropWhile isPySpace
def rstripWs (s : Str) : Str := (s.reverse.dropWhile isPySpace).reverse

/-- `bytes.strip()` family without argument: ASCII white space only -/
def isByteSpace (c : Char) : Bool := c.toNat == 32 || (9 ≤ c.toNat && c.toNat ≤ 13)
def lstripB (s : Str) : Str := s.dropWhile isByteSpace
def rstripB (s : Str) : Str := (s.reverse.dropWhile isByteSpace).reverse
def stripB (s : Str) : Str := rstripB (lstripB s)
"""

# the specialisations that are generated: (python function, lean name, parameter types)
SPECS = [
    ("parse_complex_csv_line", "parseStr", {"line": "str", "delimiter": "str", "process_field": "identity", "EOL": "unused"}),
    ("parse_complex_csv_line", "parseBytes", {"line": "bytes", "delimiter": "bytes", "process_field": "identity", "EOL": "unused"}),
    ("generate_complex_csv_row", "genRow", {"row": ("list", "str"), "delimiter": "str", "EOL": "str"}),
]


def find_function(tree, name):
    found = [n for n in tree.body if isinstance(n, ast.FunctionDef) and n.name == name]
    if len(found) != 1:
        raise TranslateError("expected exactly one module-level function %s, found %d" % (name, len(found)))
    if found[0].decorator_list:
        raise TranslateError("%s is decorated" % name)
    return found[0]


def translate_source(src_text, filename="<src>"):
    """(Lean text, legend)"""
    try:
        tree = ast.parse(src_text, filename)
    except SyntaxError as e:
        raise TranslateError("source does not parse: %s" % e)
    parts, legend = [PRELUDE], {}
    for pyname, lean_name, spec in SPECS:
        fn = find_function(tree, pyname)
        tr = FnTranslator(fn, lean_name, spec)
        try:
            text = tr.translate()
        except RecursionError:
            raise TranslateError("%s: nesting too deep" % pyname)
        except NeedsControlFlow:
            raise TranslateError("%s: and/or with an operand that may raise, outside an `if` test" % pyname)
        parts.append("/-! ### `%s`, specialisation `%s` -/\n\n%s\n" % (pyname, lean_name, text))
        legend[lean_name] = tr.legend
    out = "\n".join(parts) + "\nend N0.Gen.CsvPy\n"
    if out.count("\n") > MAX_OUTPUT_LINES:
        raise TranslateError("generated text has %d lines (limit %d)" % (out.count("\n"), MAX_OUTPUT_LINES))
    return out, legend


def write_if_changed(path, text):
    os.makedirs(os.path.dirname(path), exist_ok=True)
    old = open(path, encoding="utf-8").read() if os.path.exists(path) else None
    if old != text:
        with open(path, "w", encoding="utf-8") as f:
            f.write(text)
    return old != text


def regenerate(repo):
    """rewrite Gen/CsvPy.lean (only when the text changes); returns (legend, changed, differs_from_baseline)"""
    path = os.path.join(repo, SRC)
    try:
        src = open(path, encoding="utf-8").read()
    except OSError as e:
        raise TranslateError("cannot read %s: %s" % (SRC, e))
    text, legend = translate_source(src, path)
    changed = write_if_changed(OUT, text)
    base = open(BASELINE, encoding="utf-8").read() if os.path.exists(BASELINE) else None
    return legend, changed, (base is not None and base != text)


def restore_baseline():
    """put back the text generated from the unchanged code (used when the translation fails)"""
    if os.path.exists(BASELINE):
        return write_if_changed(OUT, open(BASELINE, encoding="utf-8").read())
    return False


# ----------------------------------------------------------------------------------------------
# self-test of the translator: small functions that use every construct of the subset are translated,
# evaluated by Lean (`#eval`) and compared with CPython on the same arguments
# ----------------------------------------------------------------------------------------------
SELFTEST_SRC = r"""
def t_scan(s, sep):
    out = []
    cur = ''
    n = 0
    for i, ch in enumerate(s):
        if ch == sep and n == 0:
            out.append(cur)
            cur = ''
            continue
        elif ch == '(':
            n = n + 1
        elif ch == ')':
            if n == 0:
                raise ValueError(f"unbalanced at {i}")
            n = n - 1
        if i > 0 and s[i - 1] == '!':
            cur += '^'
        cur += ch
    out += [cur]
    return out

def t_str(s, p):
    a = s.strip()
    b = s.rstrip('xy') + '|' + s.lstrip('xy')
    c = a.replace('ab', 'X') if p in a else a[:-2] + a[1:]
    if not c or c.startswith(p) and not c.endswith(p):
        return c + '.'
    return b + c

def t_idx(s, k):
    last = s[-1]
    x = s[k]
    if x == last or x != 'a':
        return x + last
    return s[:k] + s[-k:]

def t_bytes(b, d):
    acc = b''
    seen = False
    for i, x in enumerate(b):
        if isinstance(x, int):
            y = x.to_bytes(1, 'big')
        if y == d or b[i - 1] == d:
            seen = not seen
            continue
        if seen and y not in b' _':
            acc += y
    if len(acc) >= 3:
        return acc.strip()
    return acc

def t_rows(rows, d):
    n = 0
    txt = ''
    for r in rows:
        if r is None:
            r = ''
        if d in r or not r:
            n += 1
            continue
        txt = txt + r + d
    if n != 0 and txt:
        raise KeyError(txt)
    return txt[:-len(d)]
"""

SELFTEST_CASES = [
    ("t_scan", {"s": "str", "sep": "str"}, [("a,b", ","), ("a(b,c),d", ","), ("x)", ","), ("a!b,!c", ","), ("", ";"), ("((,)),", ",")]),
    ("t_str", {"s": "str", "p": "str"}, [("  xabyab ", "ab"), ("xyabxy", "q"), ("", ""), ("ab", "ab"), ("\tq ", "q"), ("abab", "a")]),
    ("t_idx", {"s": "str", "k": "int"}, [("abc", 0), ("abc", 2), ("abc", 3), ("abc", -3), ("abc", -4), ("", 0), ("aaa", 1), ("bab", 1)]),
    ("t_bytes", {"b": "bytes", "d": "bytes"}, [(b"a,b c,d", b","), (b",,ab_c d", b","), (b"", b","), (b",  x y  ", b","), (b"abc", b"bc")]),
    ("t_rows", {"rows": ("list", "str"), "d": "str"}, [(["a", "b"], ","), (["a,", "b"], ","), (["", ""], ","), ([], ","), (["ab", "c"], "::")]),
]


def _enc(v):
    if isinstance(v, (str, bytes)):
        return "S" + ".".join(str(c if isinstance(c, int) else ord(c)) for c in v)
    if isinstance(v, list):
        return "L[" + " ".join(_enc(x) for x in v) + "]"
    raise ValueError(v)


def _lean_arg(v):
    if isinstance(v, (str, bytes)):
        return lean_str(v)
    if isinstance(v, int):
        return "(%d : Int)" % v
    if isinstance(v, list):
        return "[" + ", ".join(_lean_arg(x) for x in v) + "]"
    raise ValueError(v)


def selftest():
    import subprocess
    import tempfile

    tree = ast.parse(SELFTEST_SRC)
    ns = {}
    exec(compile(tree, "<selftest>", "exec"), ns)
    parts = [PRELUDE.replace("N0.Gen.CsvPy", "N0.Gen.SelfTest")]
    parts.append('def encS (s : Str) : String := "S" ++ String.intercalate "." (s.map (fun c => toString c.toNat))\n'
                 'class Enc (α : Type) where enc : α → String\n'
                 'instance : Enc Str := ⟨encS⟩\n'
                 'instance : Enc (List Str) := ⟨fun l => "L[" ++ String.intercalate " " (l.map encS) ++ "]"⟩\n'
                 'def showR {α : Type} [Enc α] : Except PyErr α → String\n  | .ok v => "ok " ++ Enc.enc v\n  | .error e => "err " ++ e.name\n')
    expected = []
    for name, spec, cases in SELFTEST_CASES:
        tr = FnTranslator(find_function(tree, name), name, spec)
        parts.append(tr.translate() + "\n")
        for args in cases:
            try:
                want = "ok " + _enc(ns[name](*args))
            except Exception as e:  # noqa
                want = "err " + type(e).__name__
            expected.append((name, args, want))
            parts.append("#eval showR (%s %s)" % (name, " ".join(_lean_arg(a) for a in args)))
    parts.append("end N0.Gen.SelfTest\n")
    with tempfile.NamedTemporaryFile("w", suffix=".lean", delete=False, encoding="utf-8") as f:
        f.write("\n".join(parts))
        path = f.name
    p = subprocess.run(["lake", "env", "lean", path], cwd=os.path.join(HERE, "lean"), stdout=subprocess.PIPE, stderr=subprocess.STDOUT, text=True)
    got = [l.strip().strip('"') for l in p.stdout.split("\n") if l.strip().startswith('"')]
    bad = 0
    if p.returncode != 0 or len(got) != len(expected):
        print(p.stdout[-3000:])
        print("selftest: Lean did not evaluate the translated functions (%d answers for %d cases); file %s" % (len(got), len(expected), path))
        return 1
    for (name, args, want), g in zip(expected, got):
        if want != g:
            bad += 1
            print("selftest MISMATCH %s%r: python %s, lean %s" % (name, args, want, g))
    print("selftest: %d cases, %d mismatches (translated text: %s)" % (len(expected), bad, path))
    return 1 if bad else 0


# ----------------------------------------------------------------------------------------------
# development tool: harmless refactorings of the source must still translate, and the equality theorems
# must still hold for the regenerated text (`--refactorings [repo]`; rewrites and restores Gen/CsvPy.lean)
# ----------------------------------------------------------------------------------------------
REFACTORINGS = {
    "rename": [("empty_field_value", "empty"), ("field_value", "fv"), ("flag_quotes_in_the_begining", "opened"), ("flag_expect_delimiter_or_quotes", "pending"),
               ("fields_in_the_row", "result"), ("generated_csv_row", "acc"), ("CRLF", "eols")],
    "swap-independent-assignments": [
        ("    field_value = empty_field_value\n    fields_in_the_row = []\n    flag_quotes_in_the_begining = flag_expect_delimiter_or_quotes = False\n",
         "    fields_in_the_row = []\n    flag_quotes_in_the_begining = flag_expect_delimiter_or_quotes = False\n    field_value = empty_field_value\n"),
        ("            flag_quotes_in_the_begining = flag_expect_delimiter_or_quotes = False\n            field_value = empty_field_value\n",
         "            field_value = empty_field_value\n            flag_quotes_in_the_begining = flag_expect_delimiter_or_quotes = False\n"),
        ("        CRLF = '\\r\\n'\n        empty_field_value = ''\n        quote = '\"'\n", "        quote = '\"'\n        empty_field_value = ''\n        CRLF = '\\r\\n'\n")],
    "split-chained-assignment": [
        ("    flag_quotes_in_the_begining = flag_expect_delimiter_or_quotes = False\n\n", "    flag_quotes_in_the_begining = False\n    flag_expect_delimiter_or_quotes = False\n\n"),
        ("            flag_quotes_in_the_begining = flag_expect_delimiter_or_quotes = False\n", "            flag_expect_delimiter_or_quotes = False\n            flag_quotes_in_the_begining = False\n")],
    "elif-to-else-if": [("        elif flag_expect_delimiter_or_quotes:\n            raise ValueError(", "        else:\n          if flag_expect_delimiter_or_quotes:\n            raise ValueError(")],
    "bool-style": [("flag_quotes_in_the_begining == False or flag_expect_delimiter_or_quotes == True", "not flag_quotes_in_the_begining or flag_expect_delimiter_or_quotes"),
                   ("if len(field_value) == 0 and not flag_quotes_in_the_begining:", "if not field_value and not flag_quotes_in_the_begining:"),
                   ("if flag_expect_delimiter_or_quotes == True:", "if flag_expect_delimiter_or_quotes:")],
    "no-guard-before-replace": [("            if '\"' in field_value:\n                field_value = field_value.replace('\"', '\"\"')\n            field_value = '\"' + field_value + '\"'\n",
                                 "            field_value = '\"' + field_value.replace('\"', '\"\"') + '\"'\n")],
    "plus-instead-of-augmented": [("        generated_csv_row += field_value + delimiter\n", "        generated_csv_row = generated_csv_row + field_value + delimiter\n"),
                                  ("        field_value += ch\n", "        field_value = field_value + ch\n")],
    "local-for-the-stripped-line": [("    for offset, ch in enumerate(line.rstrip(CRLF)):\n", "    stripped = line.rstrip(CRLF)\n    for ch in stripped:\n"), (" in offset {offset} of", " of")],
    "test-in-a-local": [("        if delimiter in field_value or field_value.startswith('\"'):\n", "        needs = field_value.startswith('\"') or delimiter in field_value\n        if needs:\n")],
    "slice-minus-one": [("generated_csv_row[:-len(delimiter)]", "generated_csv_row[:-1]")],
    "append-as-plus-equals": [("fields_in_the_row.append(process_field(field_value)) # Save the last field", "fields_in_the_row += [process_field(field_value)]")],
}


def refactorings(repo):
    import subprocess

    src = open(os.path.join(repo, SRC), encoding="utf-8").read()
    base, _ = translate_source(src)
    worst = 0
    try:
        for name, pairs in REFACTORINGS.items():
            text = src
            for a, b in pairs:
                if a not in text:
                    print("%-30s does not apply to this source (%r not found)" % (name, a[:40]))
                    text = None
                    break
                text = text.replace(a, b)
            if text is None:
                continue
            try:
                lean, _ = translate_source(text)
            except TranslateError as e:
                print("%-30s TranslateError: %s" % (name, e))
                worst = 1
                continue
            if lean == base:
                print("%-30s identical Lean text" % name)
                continue
            write_if_changed(OUT, lean)
            p = subprocess.run(["lake", "build", "N0Verif.Props.C13"], cwd=os.path.join(HERE, "lean"), stdout=subprocess.PIPE, stderr=subprocess.STDOUT, text=True)
            errs = [l[:160] for l in p.stdout.split("\n") if l.startswith("error: N0Verif")]
            print("%-30s text differs; equality theorems %s %s" % (name, "hold" if p.returncode == 0 else "FAIL", errs[:2]))
            worst = worst or (1 if p.returncode else 0)
    finally:
        write_if_changed(OUT, base)
    return worst


if __name__ == "__main__":
    import sys

    if "--selftest" in sys.argv:
        sys.exit(selftest())
    args = [a for a in sys.argv[1:] if not a.startswith("--")]
    repo = args[0] if args else os.environ.get("VERIF_REPO", "/repo")
    if "--refactorings" in sys.argv:
        sys.exit(refactorings(repo))
    legend, changed, differs = regenerate(repo)
    if "--write-baseline" in sys.argv:
        os.makedirs(os.path.dirname(BASELINE), exist_ok=True)
        write_if_changed(BASELINE, open(OUT, encoding="utf-8").read())
        differs = False
    print("generated %s: changed=%s differs_from_baseline=%s" % (os.path.relpath(OUT, HERE), changed, differs))
    for fn, lg in legend.items():
        print(" ", fn, lg)
