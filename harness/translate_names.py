"""
C20 translator: Python sources of the package  ->  symbol table  ->  lean/N0Verif/Gen/Symtab.lean

Pure `ast` + `symtable` over `$VERIF_REPO/n0struct/*.py` (the `test/` directory is not part of
the package's import graph and is not read).  The package itself is never imported here.  The
only things taken from the running interpreter are the builtin tables: `dir(builtins)`,
`dir(object)`, `dir(dict)`, `dir(list)` and `dir(C)` of any other *external* base class a library
class inherits from (e.g. `collections.abc.MutableSet`), plus the public names of external modules
that are star-imported at module level (none on the pinned tree).

Table (identifiers interned as indices into `names`, sorted, so the output is deterministic):

  modules[i] = {qual, name, bound, stars, opaque_stars, all, refs, imports, classes}
     bound   names bound at module level: def / class / import / from-import (alias aware) /
             assignment, augmented and annotated assignment, for and with targets, walrus,
             match captures, conditional and try/except definitions (may-bind = bound);
             `except ... as e` names and comprehension variables are NOT bound; `del x` unbinds.
             For the package `__init__`: also the name of every submodule imported anywhere in
             the package (the import system sets the submodule as attribute of the package).
     stars   indices of package modules star-imported at module level, in order
     opaque_stars  star imports of the (partially initialised) package itself: bind nothing here
     all     symbolically evaluated `__all__` (tuple/list literals, `+`, list()/tuple(),
             `<submodule>.__all__`), or None when the module has none
     refs    (function, name): names the compiler treats as global in that function / method /
             lambda / comprehension / class body / module body (symtable: referenced and global)
     imports (function, target module, name): `from .m import name` anywhere in the module
     classes {name, bases, attrs, loads}: bases resolved to ("lib", module, class index) /
             ("ext", index into ext) / ("opaque",); attrs = names bound in the class body
             (mangled) + every `self.x = ...` store in any method; loads = (method, attr) for
             every `self.x` load (mangled)
  ext[k] = {name, attrs}: ext[0] = object, ext[1] = dict, ext[2] = list, then other external bases
  builtins = dir(builtins);  priv = interned names that start with an underscore
  concrete = (module, class index) of the top-level classes listed in the package's __all__
"""
import ast
import builtins
import hashlib
import importlib
import json
import os
import symtable
import sys

PKG = "n0struct"
COMP_SCOPES = {"lambda", "listcomp", "setcomp", "dictcomp", "genexpr"}


class TranslateError(Exception):
    pass


# ----------------------------------------------------------------------------------------------
def mangle(cls, name):
    """Python's private name mangling inside class `cls`"""
    if cls is None or not name.startswith("__") or name.endswith("__") or "." in name:
        return name
    c = cls.lstrip("_")
    if not c:
        return name
    return "_" + c + name


def target_names(t, out):
    if isinstance(t, ast.Name):
        out.append(t.id)
    elif isinstance(t, (ast.Tuple, ast.List)):
        for e in t.elts:
            target_names(e, out)
    elif isinstance(t, ast.Starred):
        target_names(t.value, out)
    # Attribute / Subscript targets bind nothing in this scope


def expr_walrus(node, out):
    """names bound by `:=` inside an expression evaluated in the current scope
    (comprehensions included: their walrus binds in the enclosing scope; lambdas excluded)"""
    if node is None:
        return
    todo = [node]
    while todo:
        n = todo.pop()
        if isinstance(n, (ast.Lambda, ast.FunctionDef, ast.AsyncFunctionDef, ast.ClassDef)):
            continue
        if isinstance(n, ast.NamedExpr):
            target_names(n.target, out)
        todo.extend(ast.iter_child_nodes(n))


def pattern_names(p, out):
    for n in ast.walk(p):
        if isinstance(n, (ast.MatchAs, ast.MatchStar)) and n.name:
            out.append(n.name)
        if isinstance(n, ast.MatchMapping) and n.rest:
            out.append(n.rest)


class Scope:
    """bindings made by the statements of one scope (module body or class body)"""

    def __init__(self):
        self.bound = []  # names, in order
        self.deleted = []
        self.star_imports = []  # ast.ImportFrom nodes with '*'
        self.from_imports = []  # (node, alias)
        self.imports = []  # (node, alias)

    def bind(self, name):
        self.bound.append(name)
        if name in self.deleted:
            self.deleted.remove(name)

    def stmts(self, body):
        for s in body:
            self.stmt(s)

    def stmt(self, s):
        w = []
        if isinstance(s, (ast.FunctionDef, ast.AsyncFunctionDef, ast.ClassDef)):
            for d in s.decorator_list:
                expr_walrus(d, w)
            self.bind(s.name)
        elif isinstance(s, ast.Import):
            for a in s.names:
                self.bind(a.asname or a.name.split(".")[0])
                self.imports.append((s, a))
        elif isinstance(s, ast.ImportFrom):
            for a in s.names:
                if a.name == "*":
                    self.star_imports.append(s)
                else:
                    self.bind(a.asname or a.name)
                    self.from_imports.append((s, a))
        elif isinstance(s, ast.Assign):
            expr_walrus(s.value, w)
            for t in s.targets:
                target_names(t, w)
        elif isinstance(s, ast.AugAssign):
            expr_walrus(s.value, w)
            target_names(s.target, w)
        elif isinstance(s, ast.AnnAssign):
            expr_walrus(s.value, w)
            if s.value is not None:
                target_names(s.target, w)
        elif isinstance(s, (ast.For, ast.AsyncFor)):
            expr_walrus(s.iter, w)
            target_names(s.target, w)
            for n in w:
                self.bind(n)
            w = []
            self.stmts(s.body)
            self.stmts(s.orelse)
        elif isinstance(s, (ast.While, ast.If)):
            expr_walrus(s.test, w)
            for n in w:
                self.bind(n)
            w = []
            self.stmts(s.body)
            self.stmts(s.orelse)
        elif isinstance(s, (ast.With, ast.AsyncWith)):
            for it in s.items:
                expr_walrus(it.context_expr, w)
                if it.optional_vars is not None:
                    target_names(it.optional_vars, w)
            for n in w:
                self.bind(n)
            w = []
            self.stmts(s.body)
        elif isinstance(s, (ast.Try, getattr(ast, "TryStar", ast.Try))):
            self.stmts(s.body)
            for h in s.handlers:
                # `except E as e`: e is unbound again when the handler is left
                self.stmts(h.body)
            self.stmts(s.orelse)
            self.stmts(s.finalbody)
        elif isinstance(s, ast.Match):
            expr_walrus(s.subject, w)
            for c in s.cases:
                pattern_names(c.pattern, w)
                expr_walrus(c.guard, w)
            for n in w:
                self.bind(n)
            w = []
            for c in s.cases:
                self.stmts(c.body)
        elif isinstance(s, ast.Delete):
            for t in s.targets:
                if isinstance(t, ast.Name):
                    self.deleted.append(t.id)
        elif hasattr(ast, "TypeAlias") and isinstance(s, ast.TypeAlias):
            target_names(s.name, w)
        else:
            for child in ast.iter_child_nodes(s):
                if isinstance(child, ast.expr):
                    expr_walrus(child, w)
        for n in w:
            self.bind(n)

    def names(self):
        out = []
        for n in self.bound:
            if n not in out and n not in self.deleted:
                out.append(n)
        return out


# ----------------------------------------------------------------------------------------------
class ModuleSrc:
    def __init__(self, qual, path, is_pkg):
        self.qual = qual
        self.path = path
        self.is_pkg = is_pkg
        self.short = qual.split(".")[-1]
        self.src = open(path, encoding="utf-8").read()
        self.tree = ast.parse(self.src, path)
        self.top = symtable.symtable(self.src, path, "exec")
        self.scope = Scope()
        self.scope.stmts(self.tree.body)
        self.classes = []  # dicts
        self.refs = []  # (fn, name)
        self.imports = []  # (fn, target qual, name)
        self.stars = []  # quals (package modules)
        self.opaque_stars = []
        self.ext_star_names = []
        self.all_expr = None
        self.bound = None


def discover(repo):
    d = os.path.join(repo, PKG)
    if not os.path.isfile(os.path.join(d, "__init__.py")):
        raise TranslateError("no package %s under %s" % (PKG, repo))
    mods = [ModuleSrc(PKG, os.path.join(d, "__init__.py"), True)]
    for f in sorted(os.listdir(d)):
        if f.endswith(".py") and f != "__init__.py":
            mods.append(ModuleSrc(PKG + "." + f[:-3], os.path.join(d, f), False))
    return mods


def resolve_from(mod, node):
    """absolute dotted name of the module a `from X import ...` refers to"""
    if node.level == 0:
        return node.module
    base = mod.qual.split(".") if mod.is_pkg else mod.qual.split(".")[:-1]
    if node.level > 1:
        base = base[: len(base) - (node.level - 1)]
    if node.module:
        base = base + node.module.split(".")
    return ".".join(base)


# ----------------------------------------------------------------------------------------------
def fn_refs(mod):
    """(function, name) for every name the compiler treats as a global reference"""
    out = []

    def walk(t, path, parent_here):
        kind = t.get_type()
        kind = kind if isinstance(kind, str) else str(kind).split(".")[-1].lower()
        name = t.get_name()
        if kind == "module":
            here = "<module>"
        elif kind == "class":
            path = path + [name]
            here = ".".join(path) + ".<body>"
        elif kind == "function" and name not in COMP_SCOPES:
            path = path + [name]
            here = ".".join(path)
        else:  # lambda, comprehension, annotation / type-parameter scopes: charged to the enclosing scope
            here = parent_here
        for s in t.get_symbols():
            if s.is_referenced() and s.is_global():
                out.append((here, s.get_name()))
        for c in t.get_children():
            walk(c, path, here)

    walk(mod.top, [], "<module>")
    seen, res = set(), []
    for r in out:
        if r not in seen:
            seen.add(r)
            res.append(r)
    return res


def collect_imports(mod):
    """every `from <package module> import name` (module level and function-local)"""
    out = []

    def walk(node, path):
        for child in ast.iter_child_nodes(node):
            if isinstance(child, (ast.FunctionDef, ast.AsyncFunctionDef, ast.ClassDef)):
                walk(child, path + [child.name])
            else:
                if isinstance(child, ast.ImportFrom):
                    target = resolve_from(mod, child)
                    for a in child.names:
                        if a.name != "*":
                            out.append((".".join(path) or "<module>", target, a.name))
                elif isinstance(child, ast.Import):
                    for a in child.names:
                        out.append((".".join(path) or "<module>", a.name, None))
                walk(child, path)

    walk(mod.tree, [])
    return out


def self_name(fn):
    for d in fn.decorator_list:
        if isinstance(d, ast.Name) and d.id == "staticmethod":
            return None
    args = fn.args.posonlyargs + fn.args.args
    return args[0].arg if args else None


def rebinds(fn_or_lambda, name):
    a = fn_or_lambda.args
    allargs = a.posonlyargs + a.args + a.kwonlyargs + ([a.vararg] if a.vararg else []) + ([a.kwarg] if a.kwarg else [])
    return any(x.arg == name for x in allargs)


def self_attrs(fn, me, cls):
    """(stores, loads) of `me.x` inside method `fn` (nested scopes included unless they rebind `me`)"""
    stores, loads = [], []

    def visit(n):
        if isinstance(n, (ast.FunctionDef, ast.AsyncFunctionDef, ast.Lambda)) and n is not fn and rebinds(n, me):
            return
        if isinstance(n, ast.ClassDef):
            return
        if isinstance(n, ast.AugAssign) and isinstance(n.target, ast.Attribute) and isinstance(n.target.value, ast.Name) and n.target.value.id == me:
            loads.append(mangle(cls, n.target.attr))
        if isinstance(n, ast.Attribute) and isinstance(n.value, ast.Name) and n.value.id == me:
            a = mangle(cls, n.attr)
            if isinstance(n.ctx, ast.Store):
                stores.append(a)
            else:  # Load, Del
                loads.append(a)
        if isinstance(n, ast.Call) and isinstance(n.func, ast.Name) and n.func.id == "setattr" and len(n.args) >= 2:
            if isinstance(n.args[0], ast.Name) and n.args[0].id == me and isinstance(n.args[1], ast.Constant) and isinstance(n.args[1].value, str):
                stores.append(n.args[1].value)
        for c in ast.iter_child_nodes(n):
            visit(c)

    visit(fn)
    return stores, loads


def collect_classes(mod):
    out = []

    def walk(body, path):
        for s in body:
            if isinstance(s, ast.ClassDef):
                cname = s.name
                sc = Scope()
                sc.stmts(s.body)
                attrs = [mangle(cname, n) for n in sc.names()]
                loads = []
                for m in s.body:
                    if isinstance(m, (ast.FunctionDef, ast.AsyncFunctionDef)):
                        me = self_name(m)
                        if me is None:
                            continue
                        st, ld = self_attrs(m, me, cname)
                        for a in st:
                            if a not in attrs:
                                attrs.append(a)
                        for a in ld:
                            if (m.name, a) not in loads:
                                loads.append((m.name, a))
                out.append({"name": ".".join(path + [cname]), "simple": cname, "toplevel": not path, "bases_ast": s.bases, "attrs": attrs, "loads": loads, "lineno": s.lineno})
                walk(s.body, path + [cname])
            elif isinstance(s, (ast.FunctionDef, ast.AsyncFunctionDef)):
                walk(s.body, path + [s.name])
            elif isinstance(s, (ast.If, ast.For, ast.While, ast.With, ast.Try)):
                for fld in ("body", "orelse", "finalbody"):
                    walk(getattr(s, fld, []) or [], path)
                for h in getattr(s, "handlers", []) or []:
                    walk(h.body, path)

    walk(mod.tree.body, [])
    return out


# ----------------------------------------------------------------------------------------------
def find_all_expr(mod):
    """the expression(s) defining __all__ at module level: list of ('=', expr) / ('+=', expr)"""
    ops = []

    def walk(body):
        for s in body:
            if isinstance(s, ast.Assign) and any(isinstance(t, ast.Name) and t.id == "__all__" for t in s.targets):
                ops.append(("=", s.value))
            elif isinstance(s, ast.AnnAssign) and isinstance(s.target, ast.Name) and s.target.id == "__all__" and s.value is not None:
                ops.append(("=", s.value))
            elif isinstance(s, ast.AugAssign) and isinstance(s.target, ast.Name) and s.target.id == "__all__":
                ops.append(("+=", s.value))
            elif isinstance(s, (ast.If, ast.For, ast.While, ast.With, ast.Try)):
                for fld in ("body", "orelse", "finalbody"):
                    walk(getattr(s, fld, []) or [])
                for h in getattr(s, "handlers", []) or []:
                    walk(h.body)

    walk(mod.tree.body)
    return ops


def eval_all(mods_by_qual, mod, stack=()):
    """symbolic value of the module's __all__ (list of str) or None"""
    if hasattr(mod, "_all_value"):
        return mod._all_value
    if mod.qual in stack:
        raise TranslateError("cyclic __all__ definition through %s" % (mod.qual,))
    ops = find_all_expr(mod)
    if not ops:
        mod._all_value = None
        return None

    def submodule_of(name):
        # a module-level name of `mod` that denotes a package module
        for node, a in mod.scope.from_imports:
            if (a.asname or a.name) == name:
                q = resolve_from(mod, node) + "." + a.name
                if q in mods_by_qual:
                    return mods_by_qual[q]
        if mod.is_pkg and (PKG + "." + name) in mods_by_qual and name in mod.bound_submodules:
            return mods_by_qual[PKG + "." + name]
        return None

    def ev(e, cur):
        if isinstance(e, ast.Constant) and isinstance(e.value, str):
            raise TranslateError("%s: __all__ is built from a bare string" % mod.qual)
        if isinstance(e, (ast.Tuple, ast.List)):
            out = []
            for x in e.elts:
                if isinstance(x, ast.Constant) and isinstance(x.value, str):
                    out.append(x.value)
                elif isinstance(x, ast.Starred):
                    out.extend(ev(x.value, cur))
                else:
                    raise TranslateError("%s: __all__ element is not a string literal (line %d)" % (mod.qual, x.lineno))
            return out
        if isinstance(e, ast.BinOp) and isinstance(e.op, ast.Add):
            return ev(e.left, cur) + ev(e.right, cur)
        if isinstance(e, ast.Call) and isinstance(e.func, ast.Name) and e.func.id in ("list", "tuple") and len(e.args) == 1 and not e.keywords:
            return ev(e.args[0], cur)
        if isinstance(e, ast.Attribute) and e.attr == "__all__" and isinstance(e.value, ast.Name):
            m2 = submodule_of(e.value.id)
            if m2 is None:
                raise TranslateError("%s: __all__ refers to %s.__all__, which is not a package module bound here" % (mod.qual, e.value.id))
            v = eval_all(mods_by_qual, m2, stack + (mod.qual,))
            if v is None:
                raise TranslateError("%s: %s has no __all__" % (mod.qual, m2.qual))
            return list(v)
        if isinstance(e, ast.Name) and e.id == "__all__" and cur is not None:
            return list(cur)
        raise TranslateError("%s: cannot evaluate __all__ symbolically (line %d: %s)" % (mod.qual, getattr(e, "lineno", 0), type(e).__name__))

    cur = None
    for op, e in ops:
        if op == "=":
            cur = ev(e, cur)
        else:
            if cur is None:
                raise TranslateError("%s: __all__ += before __all__ =" % mod.qual)
            cur = cur + ev(e, cur)
    mod._all_value = cur
    return cur


# ----------------------------------------------------------------------------------------------
def external_class(modname, attr):
    """class object from an external (non-package) module, or None"""
    try:
        m = importlib.import_module(modname)
        obj = m
        for part in attr.split("."):
            obj = getattr(obj, part)
        return obj if isinstance(obj, type) else None
    except Exception:
        return None


def build_table(repo):
    mods = discover(repo)
    by_qual = {m.qual: m for m in mods}
    pkg = by_qual[PKG]
    pkg.bound_submodules = []

    ext = [{"name": "object", "attrs": sorted(dir(object))}, {"name": "dict", "attrs": sorted(dir(dict))}, {"name": "list", "attrs": sorted(dir(list))}]
    ext_index = {"object": 0, "dict": 1, "list": 2}

    def ext_of(cls_obj):
        key = "%s.%s" % (cls_obj.__module__, cls_obj.__qualname__)
        if cls_obj is object:
            return 0
        if cls_obj is dict:
            return 1
        if cls_obj is list:
            return 2
        if key not in ext_index:
            ext_index[key] = len(ext)
            ext.append({"name": key, "attrs": sorted(dir(cls_obj))})
        return ext_index[key]

    # ---- pass 1: imports, stars, submodule bindings
    for m in mods:
        for node in m.scope.star_imports:
            target = resolve_from(m, node)
            if target == PKG and not m.is_pkg:
                m.opaque_stars.append(target)  # star import of the partially initialised package: binds nothing
            elif target in by_qual:
                m.stars.append(target)
            elif target.split(".")[0] == PKG:
                raise TranslateError("%s: star import of unknown package module %s" % (m.qual, target))
            else:
                try:
                    em = importlib.import_module(target)
                except Exception as e:
                    raise TranslateError("%s: cannot import external module %s for its star import: %r" % (m.qual, target, e))
                names = getattr(em, "__all__", None)
                if names is None:
                    names = [n for n in vars(em) if not n.startswith("_")]
                m.ext_star_names.extend(names)
        m.all_imports = collect_imports(m)
        for fn, target, name in m.all_imports:
            # the import system binds an imported submodule as attribute of the package
            cands = [target] if name is None else [target, target + "." + name]
            for q in cands:
                if q in by_qual and q != PKG and q.rsplit(".", 1)[0] == PKG:
                    sub = q.rsplit(".", 1)[1]
                    if sub not in pkg.bound_submodules:
                        pkg.bound_submodules.append(sub)
        for node in m.scope.star_imports:
            q = resolve_from(m, node)
            if q in by_qual and q != PKG:
                sub = q.rsplit(".", 1)[1]
                if sub not in pkg.bound_submodules:
                    pkg.bound_submodules.append(sub)
    for m in mods:
        b = m.scope.names()
        for n in m.ext_star_names:
            if n not in b:
                b.append(n)
        if m.is_pkg:
            for n in sorted(pkg.bound_submodules):
                if n not in b:
                    b.append(n)
        m.bound = b
        # self-check against the compiler's own table: everything we call bound is a symbol the
        # compiler sees as assigned/imported/namespace at module level
        comp = {s.get_name() for s in m.top.get_symbols() if s.is_assigned() or s.is_imported() or s.is_namespace() or s.is_declared_global()}
        own = set(m.scope.names())
        if not own <= comp:
            raise TranslateError("%s: translator binds %s which the compiler does not see at module level" % (m.qual, sorted(own - comp)))
        m.refs = fn_refs(m)
        m.imports = [(fn, t, n) for fn, t, n in m.all_imports if n is not None and t in by_qual]
        m.class_list = collect_classes(m)
    for m in mods:
        eval_all(by_qual, m)

    # ---- pass 2: class bases
    def exports(m, n):
        a = m._all_value
        return (n in a) if a is not None else (not n.startswith("_"))

    def find_class(m, name, depth=0):
        """('lib', module, class) / ('ext', k) / ('opaque',) for module-level name `name` of m"""
        if depth > len(mods) + 2:
            return ("opaque",)
        for c in m.class_list:
            if c["toplevel"] and c["simple"] == name:
                return ("lib", m.qual, c["name"])
        for node, a in m.scope.from_imports:
            if (a.asname or a.name) == name:
                target = resolve_from(m, node)
                if target in by_qual:
                    return find_class(by_qual[target], a.name, depth + 1)
                obj = external_class(target, a.name)
                return ("ext", ext_of(obj)) if obj is not None else ("opaque",)
        if name in m.scope.names():
            return ("opaque",)  # bound to something that is not a class statement / import
        for q in m.stars:
            m2 = by_qual[q]
            if exports(m2, name):
                r = find_class(m2, name, depth + 1)
                if r != ("opaque",) or name in defined_quick(m2):
                    return r
        obj = getattr(builtins, name, None)
        if isinstance(obj, type):
            return ("ext", ext_of(obj))
        return ("opaque",)

    def defined_quick(m):
        return set(m.bound)

    def base_of(m, e):
        if isinstance(e, ast.Name):
            return find_class(m, e.id)
        if isinstance(e, ast.Attribute):
            # module.Class with `import module` / `import a.b as module`
            parts = []
            x = e
            while isinstance(x, ast.Attribute):
                parts.append(x.attr)
                x = x.value
            if isinstance(x, ast.Name):
                parts.reverse()
                for node, a in m.scope.imports:
                    if (a.asname or a.name.split(".")[0]) == x.id:
                        modname = a.name if a.asname else a.name.split(".")[0]
                        if modname.split(".")[0] != PKG:
                            obj = external_class(modname, ".".join(parts))
                            if obj is not None:
                                return ("ext", ext_of(obj))
        return ("opaque",)

    for m in mods:
        for c in m.class_list:
            bs = [base_of(m, e) for e in c.pop("bases_ast")]
            if ("ext", 0) not in bs:
                bs.append(("ext", 0))  # every class inherits object
            c["bases"] = bs

    # ---- intern
    allnames = set(dir(builtins))
    for e in ext:
        allnames.update(e["attrs"])
        allnames.add(e["name"])
    for m in mods:
        allnames.add(m.qual)
        allnames.add(m.short)
        allnames.update(m.bound)
        allnames.update(m._all_value or [])
        for fn, n in m.refs:
            allnames.update((fn, n))
        for fn, t, n in m.imports:
            allnames.update((fn, n))
        for c in m.class_list:
            allnames.add(c["name"])
            allnames.update(c["attrs"])
            for fn, a in c["loads"]:
                allnames.update((c["name"] + "." + fn, a))
    names = sorted(allnames)
    ix = {n: i for i, n in enumerate(names)}
    mod_ix = {m.qual: i for i, m in enumerate(mods)}

    def cls_ix(q, cname):
        for k, c in enumerate(by_qual[q].class_list):
            if c["name"] == cname:
                return k
        raise TranslateError("class %s.%s vanished" % (q, cname))

    tmods = []
    for m in mods:
        classes = []
        for c in m.class_list:
            bases = []
            for b in c["bases"]:
                if b[0] == "lib":
                    bases.append(["lib", mod_ix[b[1]], cls_ix(b[1], b[2])])
                elif b[0] == "ext":
                    bases.append(["ext", b[1]])
                else:
                    bases.append(["opaque"])
            classes.append({"name": ix[c["name"]], "bases": bases, "attrs": [ix[a] for a in c["attrs"]], "loads": [[ix[c["name"] + "." + fn], ix[a]] for fn, a in c["loads"]]})
        tmods.append(
            {
                "qual": m.qual,
                "name": ix[m.qual],
                "bound": [ix[n] for n in m.bound],
                "stars": [mod_ix[q] for q in m.stars],
                "opaque_stars": list(m.opaque_stars),
                "all": None if m._all_value is None else [ix[n] for n in m._all_value],
                "refs": [[ix[fn], ix[n]] for fn, n in m.refs],
                "imports": [[ix[fn], mod_ix[t], ix[n]] for fn, t, n in m.imports],
                "classes": classes,
            }
        )
    # classes the package exports: top-level classes whose name is in the package's __all__
    # (all public names of the package when it has no __all__)
    pkg_all = pkg._all_value
    concrete = []
    for m in mods:
        for k, c in enumerate(m.class_list):
            if c["toplevel"] and ((c["simple"] in pkg_all) if pkg_all is not None else not c["simple"].startswith("_")):
                concrete.append([mod_ix[m.qual], k])
    table = {
        "names": names,
        "modules": tmods,
        "pkg": mod_ix[PKG],
        "builtins": [ix[n] for n in sorted(dir(builtins))],
        "ext": [{"name": ix[e["name"]], "attrs": [ix[a] for a in e["attrs"]]} for e in ext],
        "priv": [i for i, n in enumerate(names) if n.startswith("_")],
        "concrete": concrete,
        "python": "%d.%d" % sys.version_info[:2],
    }
    table["digest"] = hashlib.sha256(json.dumps(table, sort_keys=True).encode()).hexdigest()[:16]
    return table


# ----------------------------------------------------------------------------------------------
def lean_list(xs):
    return "[" + ", ".join(str(x) for x in xs) + "]"


def lean_pairs(ps):
    return "[" + ", ".join("(%d, %d)" % (a, b) for a, b in ps) + "]"


def lean_str(s):
    out = []
    for ch in s:
        if ch == "\\":
            out.append("\\\\")
        elif ch == '"':
            out.append('\\"')
        elif 32 <= ord(ch) < 127:
            out.append(ch)
        else:
            out.append("\\u{%x}" % ord(ch))
    return '"' + "".join(out) + '"'


def lean_base(b):
    if b[0] == "lib":
        return ".lib %d %d" % (b[1], b[2])
    if b[0] == "ext":
        return ".ext %d" % b[1]
    return ".unknown"


def emit_lean(table, known=()):
    L = []
    L.append("-- GENERATED by harness/translate_names.py from the sources of the package; do not edit.")
    L.append("-- Regenerated on every run of `./check C20`; the committed copy is the table of the pinned tree.")
    L.append("import N0Verif.Model.Names")
    L.append("set_option maxRecDepth 100000")
    L.append("namespace N0.Gen.Symtab")
    L.append("open N0.Names")
    L.append("")
    L.append("/-- identifier table (index = interned id); used for messages only -/")
    L.append("def names : List String := [")
    for i in range(0, len(table["names"]), 8):
        L.append("  " + ", ".join(lean_str(s) for s in table["names"][i : i + 8]) + ("," if i + 8 < len(table["names"]) else ""))
    L.append("]")
    L.append("")
    for k, m in enumerate(table["modules"]):
        L.append("/-- %s -/" % m["qual"])
        L.append("def m%d : Mod where" % k)
        L.append("  name := %d" % m["name"])
        L.append("  bound := %s" % lean_list(m["bound"]))
        L.append("  stars := %s" % lean_list(m["stars"]))
        L.append("  all := %s" % ("none" if m["all"] is None else "some " + lean_list(m["all"])))
        L.append("  refs := %s" % lean_pairs(m["refs"]))
        L.append("  imports := [%s]" % ", ".join("(%d, %d, %d)" % tuple(t) for t in m["imports"]))
        cl = []
        for c in m["classes"]:
            cl.append("{ name := %d, bases := [%s], attrs := %s, loads := %s }" % (c["name"], ", ".join(lean_base(b) for b in c["bases"]), lean_list(c["attrs"]), lean_pairs(c["loads"])))
        L.append("  classes := [%s]" % (",\n    ".join(cl)))
        L.append("")
    L.append("def table : Table where")
    L.append("  mods := [%s]" % ", ".join("m%d" % k for k in range(len(table["modules"]))))
    L.append("  pkg := %d" % table["pkg"])
    L.append("  builtins := %s" % lean_list(table["builtins"]))
    L.append("  ext := [%s]" % ",\n    ".join(lean_list(e["attrs"]) for e in table["ext"]))
    L.append("  priv := %s" % lean_list(table["priv"]))
    L.append("  concrete := %s" % lean_pairs(table["concrete"]))
    L.append("")
    L.append("/-- references excused by an open known finding: (module, function, name) -/")
    L.append("def known : List (Nat × Nat × Nat) := [%s]" % ", ".join("(%d, %d, %d)" % tuple(t) for t in known))
    L.append("")
    L.append('def digest : String := "%s"' % table["digest"])
    L.append("")
    L.append("end N0.Gen.Symtab")
    return "\n".join(L) + "\n"


def translate(repo, lean_dir, known=()):
    """regenerate Gen/Symtab.lean (only rewritten when its content changes); returns the table"""
    table = build_table(repo)
    text = emit_lean(table, known)
    d = os.path.join(lean_dir, "N0Verif", "Gen")
    os.makedirs(d, exist_ok=True)
    path = os.path.join(d, "Symtab.lean")
    old = open(path, encoding="utf-8").read() if os.path.exists(path) else None
    if old != text:
        with open(path, "w", encoding="utf-8") as f:
            f.write(text)
    table["_changed"] = old != text
    return table


if __name__ == "__main__":
    repo = os.environ.get("VERIF_REPO", "/repo")
    here = os.path.dirname(os.path.dirname(os.path.abspath(__file__)))
    t = translate(repo, os.path.join(here, "lean"))
    print("modules %d, names %d, refs %d, digest %s, changed %s" % (len(t["modules"]), len(t["names"]), sum(len(m["refs"]) for m in t["modules"]), t["digest"], t["_changed"]))
