"""
Translator for the WRITER of C16 (`generate_tlv`): regenerates lean/N0Verif/Gen/TlvGenPy.lean from
n0struct/n0struct_utils.py on every run of `./check C16`.  `Proofs/TlvGenWriterEq.lean` proves the generated
definitions equal to `Tlv.genEntry` / `Tlv.genEntries` / `Tlv.lenPadOk` / `Tlv.generateTlv` of `Model/Tlv.lean`
(`C16_generated_gen_*` in `Props/C16.lean`).

The subset read here (everything else raises TranslateError = broken tie, never stale text):

  * the function is `[guard statements]; return ''.join(ELT for a, b in <dict parameter>.items())`;
    the guard statements become `GenerateTlv.guard … : Except PyErr Unit` (falls off the end = `.ok ()`), ELT becomes
    `GenerateTlv.entry … (x0 x1 : Str) : Except PyErr Str`, the function is guard, then `joinMapE entry items`;
  * statements: `if`/`else`, `try: v = e  except ValueError: v = e'`, assignment to a name, `raise_exception(<str>)`
    as a statement, `pass`;
  * expressions, evaluated left to right, each one either pure or raising (continuation passing):
    names, int/str/bool constants, `len(str)`, `str(int)`, `int(str)` (= `Tlv.pyInt`, raises ValueError),
    `isinstance(x, str)` of a parameter whose type is fixed by the specialisation, comparisons of ints, `not`/`and`/`or`
    of pure operands, f-strings of str names without format specification, `s.ljust(w, fill)` / `s.rjust(w, fill)`
    (TypeError unless the fill is one character), `''.join((e1, …, en))`, `a if test else b`,
    `raise_exception(<str>)` as an expression (AssertionError: the body of `raise_exception` is checked to be the
    one this meaning was read from).
"""
import ast
import os

from harness import translate_py_csv as base
from harness.translate_py_csv import TranslateError, indent

HERE = os.path.dirname(os.path.dirname(os.path.abspath(__file__)))
OUT = os.path.join(HERE, "lean", "N0Verif", "Gen", "TlvGenPy.lean")
BASELINE = os.path.join(HERE, "harness", "baselines", "TlvGenPy.lean.txt")
SRC = os.path.join("n0struct", "n0struct_utils.py")

LEAN_TY = {"str": "Str", "int": "Int", "bool": "Bool", "dict_ss": "List (Str × Str)"}

# the body `raise_exception` must have for `raise_exception(<str>)` to mean `raise AssertionError`
RAISE_EXCEPTION_SHAPE = (
    "[If(test=Call(func=Name(id='isinstance'), args=[Name(id='ex'), Name(id='str')]), "
    "body=[Assign(targets=[Name(id='ex')], value=Call(func=Name(id='AssertionError'), args=[Name(id='ex')]))]), "
    "Raise(exc=Name(id='ex'))]"
)


def shape(nodes):
    text = ast.dump(ast.Module(body=list(nodes), type_ignores=[]), annotate_fields=True, include_attributes=False)
    for junk in (", ctx=Load()", ", ctx=Store()", "ctx=Load()", "ctx=Store()", ", keywords=[]", ", orelse=[]", ", type_ignores=[]"):
        text = text.replace(junk, "")
    return text[len("Module(body="):-1]


def char_list(s):
    def one(c):
        if c in "'\\":
            return "'\\%s'" % c
        if 32 <= ord(c) < 127:
            return "'%s'" % c
        return "(Char.ofNat %d)" % ord(c)
    return "[" + ", ".join(one(c) for c in s) + "]"


class WriterTranslator:
    def __init__(self, fn, spec):
        self.fn = fn
        self.spec = spec
        self.n_local = 0
        self.n_tmp = 0
        self.legend = {}

    def err(self, node, what):
        return TranslateError("generate_tlv line %d: %s" % (getattr(node, "lineno", 0), what))

    def fresh_tmp(self):
        self.n_tmp += 1
        return "t%d" % (self.n_tmp - 1)

    def fresh_local(self, pyname):
        name = "x%d" % self.n_local
        self.n_local += 1
        self.legend[name] = pyname
        return name

    # ---- pure expressions: (text, type) or None when the expression may raise
    def pure(self, e, env):
        if isinstance(e, ast.Constant):
            v = e.value
            if isinstance(v, bool):
                return ("true" if v else "false"), "bool"
            if isinstance(v, int):
                return "(%d : Int)" % v, "int"
            if isinstance(v, str):
                return "(%s : Str)" % char_list(v), "str"
            raise self.err(e, "constant %r" % (v,))
        if isinstance(e, ast.Name):
            if e.id not in env:
                raise self.err(e, "name %r is not a parameter or an assigned local" % e.id)
            return env[e.id]
        if isinstance(e, ast.JoinedStr):
            parts = []
            for v in e.values:
                if isinstance(v, ast.Constant) and isinstance(v.value, str):
                    parts.append("(%s : Str)" % char_list(v.value))
                elif isinstance(v, ast.FormattedValue) and v.conversion == -1 and v.format_spec is None and isinstance(v.value, ast.Name):
                    t, ty = self.pure(v.value, env)
                    if ty != "str":
                        raise self.err(e, "f-string of a %s" % ty)
                    parts.append(t)
                else:
                    raise self.err(e, "f-string part outside the subset")
            return ("(" + " ++ ".join(parts) + ")") if parts else "([] : Str)", "str"
        if isinstance(e, ast.UnaryOp) and isinstance(e.op, ast.Not):
            p = self.pure(e.operand, env)
            if p is None:
                return None
            if p[1] != "bool":
                raise self.err(e, "`not` of a %s" % p[1])
            return "(!%s)" % p[0], "bool"
        if isinstance(e, ast.BoolOp):
            ps = [self.pure(v, env) for v in e.values]
            if any(p is None for p in ps):
                raise self.err(e, "and/or with an operand that may raise")
            if any(p[1] != "bool" for p in ps):
                raise self.err(e, "and/or of non-bool operands")
            op = " && " if isinstance(e.op, ast.And) else " || "
            return "(" + op.join(p[0] for p in ps) + ")", "bool"
        if isinstance(e, ast.Compare):
            if len(e.ops) != 1:
                raise self.err(e, "chained comparison")
            a, b = self.pure(e.left, env), self.pure(e.comparators[0], env)
            if a is None or b is None:
                return None
            return self.compare(e, a, b)
        if isinstance(e, ast.Call):
            f = e.func
            if e.keywords:
                raise self.err(e, "keyword arguments")
            if isinstance(f, ast.Name) and f.id == "len" and len(e.args) == 1:
                a = self.pure(e.args[0], env)
                if a is None:
                    return None
                if a[1] != "str":
                    raise self.err(e, "len() of a %s" % a[1])
                return "(pyLen %s)" % a[0], "int"
            if isinstance(f, ast.Name) and f.id == "str" and len(e.args) == 1:
                a = self.pure(e.args[0], env)
                if a is None:
                    return None
                if a[1] == "int":
                    return "(pyStrInt %s)" % a[0], "str"
                if a[1] == "str":
                    return a
                raise self.err(e, "str() of a %s" % a[1])
            if isinstance(f, ast.Name) and f.id == "isinstance" and len(e.args) == 2:
                x, cls = e.args
                if isinstance(x, ast.Name) and x.id in self.spec and isinstance(cls, ast.Name) and cls.id in ("str", "int", "dict"):
                    # decided by the specialisation (the parameter is not re-bound: checked in translate())
                    want = {"str": "str", "int": "int", "dict": "dict_ss"}[cls.id]
                    return ("true" if self.spec[x.id] == want else "false"), "bool"
                raise self.err(e, "isinstance outside the subset")
            return None
        if isinstance(e, ast.IfExp):
            return None
        raise self.err(e, "expression %s outside the subset" % type(e).__name__)

    def compare(self, e, a, b):
        op = e.ops[0]
        if a[1] == b[1] == "int":
            sym = {ast.LtE: "≤", ast.Lt: "<", ast.GtE: "≥", ast.Gt: ">", ast.Eq: "=", ast.NotEq: "≠"}.get(type(op))
            if sym is None:
                raise self.err(e, "comparison operator %s" % type(op).__name__)
            return "(decide (%s %s %s))" % (a[0], sym, b[0]), "bool"
        if a[1] == b[1] == "str" and isinstance(op, (ast.Eq, ast.NotEq)):
            return "(decide (%s %s %s))" % (a[0], "=" if isinstance(op, ast.Eq) else "≠", b[0]), "bool"
        raise self.err(e, "comparison of %s with %s" % (a[1], b[1]))

    # ---- expressions in continuation-passing style: k(text, type) -> Lean text of type `Except PyErr _`
    def many(self, es, env, k, acc=None):
        acc = acc or []
        if not es:
            return k(acc)
        return self.cps(es[0], env, lambda t, ty: self.many(es[1:], env, k, acc + [(t, ty)]))

    def bind(self, effect, ty, k):
        t = self.fresh_tmp()
        return "match %s with\n| .error e => .error e\n| .ok %s =>\n%s" % (effect, t, indent(k(t, ty)))

    def is_raise_exception(self, e):
        return isinstance(e, ast.Call) and isinstance(e.func, ast.Name) and e.func.id == "raise_exception"

    def raise_exception(self, e, env):
        if len(e.args) != 1 or e.keywords:
            raise self.err(e, "raise_exception with other than one argument")
        m = e.args[0]
        if isinstance(m, ast.JoinedStr):
            # a message: only its being a str that cannot raise matters (`!r`/`!s` of a str or int name cannot raise)
            for v in m.values:
                if isinstance(v, ast.Constant) and isinstance(v.value, str):
                    continue
                if (isinstance(v, ast.FormattedValue) and v.format_spec is None and isinstance(v.value, ast.Name)
                        and env.get(v.value.id, (None, None))[1] in ("str", "int")):
                    continue
                raise self.err(e, "message of raise_exception outside the subset")
            return ".error .AssertionError"
        a = self.pure(m, env)
        if a is None or a[1] != "str":
            raise self.err(e, "raise_exception of something that is not a pure str expression")
        return ".error .AssertionError"

    def cps(self, e, env, k):
        p = self.pure(e, env)
        if p is not None:
            return k(*p)
        if isinstance(e, ast.IfExp):
            t = self.pure(e.test, env)
            if t is None or t[1] != "bool":
                raise self.err(e, "test of a conditional expression that may raise / is not a bool")
            return "if %s then\n%s\nelse\n%s" % (t[0], indent(self.cps(e.body, env, k)), indent(self.cps(e.orelse, env, k)))
        if isinstance(e, ast.UnaryOp) and isinstance(e.op, ast.Not):
            def after(t, ty):
                if ty != "bool":
                    raise self.err(e, "`not` of a %s" % ty)
                return k("(!%s)" % t, "bool")
            return self.cps(e.operand, env, after)
        if isinstance(e, ast.Compare):
            return self.many([e.left, e.comparators[0]], env, lambda vs: k(*self.compare(e, vs[0], vs[1])))
        if isinstance(e, ast.Call):
            f = e.func
            if self.is_raise_exception(e):
                return self.raise_exception(e, env)
            if isinstance(f, ast.Name) and f.id == "int" and len(e.args) == 1:
                def after(t, ty):
                    if ty == "int":
                        return k(t, ty)
                    if ty != "str":
                        raise self.err(e, "int() of a %s" % ty)
                    return self.bind("pyIntE %s" % t, "int", k)
                return self.cps(e.args[0], env, after)
            if isinstance(f, ast.Name) and f.id in ("len", "str") and len(e.args) == 1:
                def after(t, ty):
                    tmp = ast.Name(id="__tmp__")
                    return k(*self.pure(ast.Call(func=f, args=[tmp], keywords=[]), dict(env, __tmp__=(t, ty))))
                return self.cps(e.args[0], env, after)
            if isinstance(f, ast.Attribute) and f.attr in ("ljust", "rjust") and len(e.args) == 2:
                def after(vs):
                    if [ty for _, ty in vs] != ["str", "int", "str"]:
                        raise self.err(e, "%s of (%s)" % (f.attr, ", ".join(ty for _, ty in vs)))
                    return self.bind("pyJust %s %s %s %s" % ("true" if f.attr == "ljust" else "false", vs[0][0], vs[1][0], vs[2][0]), "str", k)
                return self.many([f.value] + list(e.args), env, after)
            if isinstance(f, ast.Attribute) and f.attr == "join" and len(e.args) == 1 and isinstance(e.args[0], ast.Tuple):
                if not (isinstance(f.value, ast.Constant) and f.value.value == ""):
                    raise self.err(e, "join with a separator other than ''")
                def after(vs):
                    if any(ty != "str" for _, ty in vs):
                        raise self.err(e, "join of non-str elements")
                    return k("(" + " ++ ".join(t for t, _ in vs) + ")" if vs else "([] : Str)", "str")
                return self.many(list(e.args[0].elts), env, after)
        raise self.err(e, "expression %s outside the subset" % type(e).__name__)

    # ---- statements; `k(env)` is what follows
    def block(self, stmts, env, k):
        if not stmts:
            return k(env)
        s, rest = stmts[0], stmts[1:]
        if isinstance(s, ast.Pass):
            return self.block(rest, env, k)
        if isinstance(s, ast.Expr) and self.is_raise_exception(s.value):
            return self.raise_exception(s.value, env)
        if isinstance(s, ast.Assign) and len(s.targets) == 1 and isinstance(s.targets[0], ast.Name):
            name = s.targets[0].id
            if name in self.spec:
                raise self.err(s, "assignment to the parameter %r" % name)
            def after(t, ty):
                x = self.fresh_local(name)
                return "let %s : %s := %s\n%s" % (x, LEAN_TY[ty], t, self.block(rest, dict(env, **{name: (x, ty)}), k))
            return self.cps(s.value, env, after)
        if isinstance(s, ast.If):
            t = self.pure(s.test, env)
            if t is None or t[1] != "bool":
                raise self.err(s, "test of an `if` that may raise / is not a bool")
            return "if %s then\n%s\nelse\n%s" % (t[0], indent(self.block(list(s.body) + rest, env, k)), indent(self.block(list(s.orelse) + rest, env, k)))
        if isinstance(s, ast.Try):
            ok = (len(s.body) == 1 and len(s.handlers) == 1 and not s.orelse and not s.finalbody
                  and isinstance(s.handlers[0].type, ast.Name) and s.handlers[0].type.id == "ValueError" and s.handlers[0].name is None
                  and len(s.handlers[0].body) == 1)
            a, b = (s.body[0], s.handlers[0].body[0]) if ok else (None, None)
            ok = ok and all(isinstance(x, ast.Assign) and len(x.targets) == 1 and isinstance(x.targets[0], ast.Name) for x in (a, b))
            if not ok or a.targets[0].id != b.targets[0].id or a.targets[0].id in self.spec:
                raise self.err(s, "try statement other than `try: v = e  except ValueError: v = e'`")
            name, tys = a.targets[0].id, []
            def ret(t, ty):
                tys.append(ty)
                return ".ok %s" % t
            body = self.cps(a.value, env, ret)
            handler = self.cps(b.value, env, ret)
            if len(set(tys)) != 1:
                raise self.err(s, "the two assignments of the try statement have different types")
            x = self.fresh_local(name)
            return "match pyTry .ValueError (\n%s) (\n%s) with\n| .error e => .error e\n| .ok %s =>\n%s" % (
                indent(body), indent(handler), x, indent(self.block(rest, dict(env, **{name: (x, tys[0])}), k)))
        raise self.err(s, "statement %s outside the subset" % type(s).__name__)

    def translate(self):
        fn = self.fn
        a = fn.args
        if a.vararg or a.kwarg or a.kwonlyargs or a.posonlyargs:
            raise TranslateError("generate_tlv: parameter kinds outside the subset")
        env, params = {}, []
        for p in a.args:
            want = self.spec.get(p.arg)
            if want is None:
                raise TranslateError("generate_tlv: parameter %r is not covered by the specialisation" % p.arg)
            name = "a%d" % len(params)
            params.append((name, want))
            self.legend[name] = p.arg
            env[p.arg] = (name, want)
        if set(self.spec) != {p.arg for p in a.args}:
            raise TranslateError("generate_tlv: parameters %s expected" % sorted(self.spec))
        for n in ast.walk(fn):
            if isinstance(n, (ast.Global, ast.Nonlocal, ast.Lambda, ast.NamedExpr, ast.Delete, ast.For, ast.While, ast.With, ast.Yield, ast.YieldFrom)):
                raise self.err(n, "%s in generate_tlv" % type(n).__name__)
        body = [s for s in fn.body if not (isinstance(s, ast.Expr) and isinstance(s.value, ast.Constant) and isinstance(s.value.value, str))]
        if not body or not isinstance(body[-1], ast.Return) or body[-1].value is None:
            raise TranslateError("generate_tlv: the last statement is not `return e`")
        for s in body[:-1]:
            for n in ast.walk(s):
                if isinstance(n, ast.Return):
                    raise self.err(n, "return inside the guard statements")
        sig = "".join(" (%s : %s)" % (n, LEAN_TY[t]) for n, t in params)
        args = "".join(" " + n for n, _ in params)
        guard = self.block(body[:-1], env, lambda _env: ".ok ()")
        # return ''.join(ELT for a, b in d.items())
        r = body[-1].value
        ok = (isinstance(r, ast.Call) and isinstance(r.func, ast.Attribute) and r.func.attr == "join" and isinstance(r.func.value, ast.Constant)
              and r.func.value.value == "" and len(r.args) == 1 and not r.keywords and isinstance(r.args[0], ast.GeneratorExp)
              and len(r.args[0].generators) == 1)
        if not ok:
            raise self.err(r, "the returned expression is not ''.join(<generator expression with one `for`>)")
        comp = r.args[0].generators[0]
        it = comp.iter
        ok = (not comp.ifs and not comp.is_async and isinstance(comp.target, ast.Tuple) and len(comp.target.elts) == 2
              and all(isinstance(x, ast.Name) for x in comp.target.elts)
              and isinstance(it, ast.Call) and not it.args and not it.keywords and isinstance(it.func, ast.Attribute) and it.func.attr == "items"
              and isinstance(it.func.value, ast.Name) and env.get(it.func.value.id, (None, None))[1] == "dict_ss")
        if not ok:
            raise self.err(r, "the generator expression is not `… for a, b in <dict parameter>.items()`")
        k_name, v_name = (x.id for x in comp.target.elts)
        if k_name == v_name or k_name in self.spec or v_name in self.spec:
            raise self.err(r, "loop variables shadow a parameter / each other")
        self.n_local = 0
        kx, vx = self.fresh_local(k_name), self.fresh_local(v_name)
        eenv = dict(env, **{k_name: (kx, "str"), v_name: (vx, "str")})

        def fin(t, ty):
            if ty != "str":
                raise self.err(r, "the joined element is a %s" % ty)
            return ".ok %s" % t

        entry = self.cps(r.args[0].elt, eenv, fin)
        items = env[it.func.value.id][0]
        decls = [
            "def GenerateTlv.guard%s : Except PyErr Unit :=\n%s" % (sig, indent(guard)),
            "def GenerateTlv.entry%s (%s : Str) (%s : Str) : Except PyErr Str :=\n%s" % (sig, kx, vx, indent(entry)),
            "def generateTlv%s : Except PyErr Str :=\n  match GenerateTlv.guard%s with\n  | .error e => .error e\n  | .ok _ => joinMapE (fun p => GenerateTlv.entry%s p.1 p.2) %s"
            % (sig, args, args, items),
        ]
        return "\n\n".join(decls)


PRELUDE = """-- GENERATED by harness/translate_py_tlvgen.py from n0struct/n0struct_utils.py; do not edit
import N0Verif.Py.Basic
import N0Verif.Model.Tlv
/-!
  Lean definitions regenerated from the Python source of `generate_tlv` on every run of `./check C16`.
  `Proofs/TlvGenWriterEq.lean` proves them equal to `Tlv.genEntry` / `Tlv.genEntries` / `Tlv.lenPadOk` /
  `Tlv.generateTlv` of the hand-written model.  `int()` is `Tlv.pyInt`; `raise_exception(<str>)` is `AssertionError`.
  Names are normalised (`a<i>` parameters, `x<i>` locals, `t<i>` values of expressions that may raise).
-/
set_option linter.unusedVariables false
namespace N0.Gen.TlvGenPy
open N0 N0.Py

/-! ### run-time support of the translated subset -/

/-- `int(s)` of a str -/
def pyIntE (s : Str) : Except PyErr Int :=
  match N0.Tlv.pyInt s with
  | some n => .ok n
  | none => .error .ValueError

/-- `len(s)` -/
def pyLen (s : Str) : Int := Int.ofNat s.length

/-- `str(n)` of an int -/
def pyStrInt (n : Int) : Str := if n < 0 then '-' :: Nat.toDigits 10 n.natAbs else Nat.toDigits 10 n.toNat

/-- `s.ljust(w, fill)` (`left`) / `s.rjust(w, fill)`: `TypeError` unless the fill is exactly one character -/
def pyJust (left : Bool) (s : Str) (w : Int) (fill : Str) : Except PyErr Str :=
  match fill with
  | [c] => .ok (if left then ljust w.toNat c s else rjust w.toNat c s)
  | _ => .error .TypeError

/-- `try: body  except cls: handler` -/
def pyTry {α : Type} (cls : PyErr) (body handler : Except PyErr α) : Except PyErr α :=
  match body with
  | .ok v => .ok v
  | .error e => if e = cls then handler else .error e

/-- `''.join(f(x) for x in xs)`: the elements are produced in order, the first one that raises ends it -/
def joinMapE {α : Type} (f : α → Except PyErr Str) : List α → Except PyErr Str
  | [] => .ok []
  | x :: rest =>
    match f x with
    | .error e => .error e
    | .ok s =>
      match joinMapE f rest with
      | .error e => .error e
      | .ok r => .ok (s ++ r)
"""

SPEC = {"input_dict": "dict_ss", "tag_fieldlen": "int", "len_fieldlen": "int", "tag_padding": "str", "len_padding": "str"}


def translate_source(src_text, filename="<src>"):
    try:
        tree = ast.parse(src_text, filename)
    except SyntaxError as e:
        raise TranslateError("source does not parse: %s" % e)
    rx = base.find_function(tree, "raise_exception")
    if [p.arg for p in rx.args.args] != ["ex"] or shape(rx.body) != RAISE_EXCEPTION_SHAPE:
        raise TranslateError("raise_exception is not `if isinstance(ex, str): ex = AssertionError(ex); raise ex` any more: " + shape(rx.body)[:300])
    fn = base.find_function(tree, "generate_tlv")
    tr = WriterTranslator(fn, SPEC)
    text = tr.translate()
    out = PRELUDE + "\n/-! ### `generate_tlv` -/\n\n" + text + "\n\nend N0.Gen.TlvGenPy\n"
    if out.count("\n") > base.MAX_OUTPUT_LINES:
        raise TranslateError("generated text too long")
    return out, {"generateTlv": tr.legend}


def regenerate(repo):
    path = os.path.join(repo, SRC)
    try:
        src = open(path, encoding="utf-8").read()
    except OSError as e:
        raise TranslateError("cannot read %s: %s" % (SRC, e))
    text, legend = translate_source(src, path)
    changed = base.write_if_changed(OUT, text)
    b = open(BASELINE, encoding="utf-8").read() if os.path.exists(BASELINE) else None
    return legend, changed, (b is not None and b != text)


def restore_baseline():
    if os.path.exists(BASELINE):
        return base.write_if_changed(OUT, open(BASELINE, encoding="utf-8").read())
    return False


if __name__ == "__main__":
    import sys

    args = [a for a in sys.argv[1:] if not a.startswith("--")]
    repo = args[0] if args else os.environ.get("VERIF_REPO", "/repo")
    legend, changed, differs = regenerate(repo)
    if "--write-baseline" in sys.argv:
        os.makedirs(os.path.dirname(BASELINE), exist_ok=True)
        base.write_if_changed(BASELINE, open(OUT, encoding="utf-8").read())
        differs = False
    print("generated %s: changed=%s differs_from_baseline=%s" % (os.path.relpath(OUT, HERE), changed, differs))
    print(" ", legend)
